#!/bin/bash
# Offline setup: everything comes from /opt/veriftools/wheels.  Idempotent.
cd "$(dirname "$0")" || exit 1
export PIP_NO_INDEX=1
/venv/bin/python -c "import hypothesis" 2>/dev/null || \
  /venv/bin/pip install --no-index --find-links /opt/veriftools/wheels hypothesis || exit 1
if ! PYTHONPATH=.deps /venv/bin/python -c "import atheris" 2>/dev/null; then
  /venv/bin/pip install --no-index --find-links /opt/veriftools/wheels --target .deps atheris >/dev/null 2>&1 \
    || echo "note: atheris not installable; the C18 thorough tier falls back to Hypothesis only"
fi
/venv/bin/python -B -c "import sys; sys.path.insert(0, '.'); from dxverif.model import selftest; selftest(); print('dxverif ready')"
