#!/opt/veriftools/pyvenv/bin/python
"""Validates MANIFEST.json and evidence/*.json against the schemas (needs jsonschema: run with python3-vt)."""
import glob, json, sys, os
import jsonschema
H = os.path.dirname(os.path.dirname(os.path.abspath(__file__)))
jsonschema.validate(json.load(open(H + '/MANIFEST.json')), json.load(open('/root/.vp/MANIFEST.schema.json')))
es = json.load(open('/root/.vp/EVIDENCE.schema.json'))
n = 0
for f in sorted(glob.glob(H + '/evidence/*.json')):
    jsonschema.validate(json.load(open(f)), es); n += 1
print('MANIFEST valid; %d evidence files valid' % n)
