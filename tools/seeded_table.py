#!/venv/bin/python
"""tools/seeded_table.py - prints the markdown table of DESIGN.md section 9 from seeded/*/meta.json and
seeded/RESULTS.json (the outcome of the last `tools/seeded.py run`), or rewrites it in place with --write."""
import json
import os
import re
import sys

HERE = os.path.dirname(os.path.dirname(os.path.abspath(__file__)))
BEGIN, END = '<!-- seeded-table:begin -->', '<!-- seeded-table:end -->'


def table():
    res = json.load(open(os.path.join(HERE, 'seeded', 'RESULTS.json')))
    rows = ['| change | breaks | needs, in order to manifest | caught by (sub-oracles, quick tier; * = a committed replay file fails too) |', '|---|---|---|---|']
    n = caught = 0
    for name in sorted(os.listdir(os.path.join(HERE, 'seeded'))):
        mp = os.path.join(HERE, 'seeded', name, 'meta.json')
        if not os.path.exists(mp):
            continue
        meta = json.load(open(mp))
        r = res.get(name, {})
        per = []
        for cb in r.get('caught_by', []):
            per.append((cb['prop'] + ': ' if len(meta['breaks']) > 1 else '') + ', '.join(cb['oracles'][:3]))
        n += 1
        ok = r.get('status') == 'caught'
        caught += ok
        rows.append('| `%s` | %s | %s | %s |' % (name, ','.join(meta['breaks']), meta.get('needs_short', 'see meta.json').replace('|', '\\|'),
                                               ('; '.join(per) if ok else '**not caught**')))
    return '\n'.join(rows), n, caught


if __name__ == '__main__':
    t, n, c = table()
    if '--write' in sys.argv:
        p = os.path.join(HERE, 'DESIGN.md')
        s = open(p).read()
        i, j = s.index(BEGIN), s.index(END)
        s = s[:i + len(BEGIN)] + '\n' + t + '\n' + s[j:]
        open(p, 'w').write(s)
    else:
        print(t)
    print('%d changes, %d caught' % (n, c), file=sys.stderr)
