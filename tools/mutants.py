#!/venv/bin/python
"""Planted-defect sensitivity test (DESIGN.md section 9).

    tools/mutants.py [--only NAME[,NAME...]] [--props C01,C05] [--tier quick]

For every mutant below: copy /repo to a scratch directory (mktemp -d, outside /repo and /verif), apply
the textual change, save it as mutants/<name>.patch, run the repository's stable tests there (a
mutant that breaks them is reported as 'breaks-tests' and not counted), run the listed checks with
DYNETX_REPO=<scratch> and require exit 1 with a VIOLATION line.  The scratch directory is removed.
Results: mutants/RESULTS.json and a table on stdout.
"""
import json
import os
import shutil
import subprocess
import sys
import tempfile

HERE = os.path.dirname(os.path.dirname(os.path.abspath(__file__)))
REPO = '/repo'
UND = 'dynetx/classes/dyngraph.py'
DIR = 'dynetx/classes/dyndigraph.py'
FUN = 'dynetx/classes/function.py'
EDG = 'dynetx/readwrite/edgelist.py'
JSN = 'dynetx/readwrite/json_graph/node_link.py'
PTH = 'dynetx/algorithms/paths.py'
ASS = 'dynetx/algorithms/assortativity.py'
DEC = 'dynetx/utils/decorators.py'
TRF = 'dynetx/utils/transform.py'
BOTH = (UND, DIR)

# (name, properties expected to notice, files, old, new)
M = [
    ('adjacent_span_ignored', ['C01', 'C03'], BOTH, "            elif t[1] > max_end:\n", "            elif t[1] > max_end and t[0] <= max_end:\n"),
    ('adjacent_interval_span_ignored', ['C01', 'C03'], BOTH, "            elif t[1] > max_end:\n", "            elif t[1] > max_end and (t[0] <= max_end or e is None):\n"),
    ('extend_keeps_old_start_of_span', ['C01', 'C03'], (UND,), "                app[-1] = [start, t[1]]\n", "                app[-1] = [min(start, t[0]) if e is None else t[0], t[1]]\n"),
    ('del_event_only_for_long_runs', ['C05'], (UND,), '                self.__del_event(u, v, "-", max_end + 1)\n', '                if start < max_end:\n                    self.__del_event(u, v, "-", max_end + 1)\n'),
    ('plus_event_on_contained_interval', ['C05'], BOTH, "                covered = []\n                if e is not None and self.edge_removal and t[1] == max_end:", "                covered = []\n                if e is not None and t[0] > start:\n                    self.__add_event(u, v, \"+\", t[0])\n                if e is not None and self.edge_removal and t[1] == max_end:"),
    ('restated_minus_anywhere', ['C05'], BOTH, "                if e is not None and self.edge_removal and t[1] == max_end:", "                if e is not None and self.edge_removal:"),
    ('stale_minus_on_extend', ['C05'], BOTH, '                self.__del_event(u, v, "-", max_end + 1)\n', ''),
    ('no_minus_for_point_extension', ['C05'], BOTH, "if self.edge_removal and (e is not None or start < max_end):", "if self.edge_removal and e is not None:"),
    ('overlap_double_counted', ['C04'], BOTH, "                covered = range(max_end + 1, t[1] + 1)\n", ""),
    ('contained_counted_again', ['C04'], BOTH, "                covered = []\n", ""),
    # equivalent: a rejection needs an existing pair, whose endpoints already exist
    ('EQUIV_nodes_created_before_check', [], (UND,), '''        if u in self._adj and v in self._adj[u] and t[0] < self._adj[u][v]['t'][-1][0]:
            raise ValueError("The specified interaction extension is broader than "
                             "the ones already present for the given nodes.")

        if u not in self._node:
            self._adj[u] = self.adjlist_inner_dict_factory()
            self._node[u] = {}
        if v not in self._node:
            self._adj[v] = self.adjlist_inner_dict_factory()
            self._node[v] = {}
''', '''        if u not in self._node:
            self._adj[u] = self.adjlist_inner_dict_factory()
            self._node[u] = {}
        if v not in self._node:
            self._adj[v] = self.adjlist_inner_dict_factory()
            self._node[v] = {}

        if v in self._adj[u] and t[0] < self._adj[u][v]['t'][-1][0]:
            raise ValueError("The specified interaction extension is broader than "
                             "the ones already present for the given nodes.")
'''),
    ('flipped_events_not_found', ['C05'], (UND,), "            if (v, u, op) in events:\n                return v, u, op\n", ""),
    # equivalent for C08: the id of a repeated/contained add instant is already registered
    ('EQUIV_accumulative_ids_only_when_new', [], BOTH, "        if not self.edge_removal:\n            covered = [t[0]]\n", ""),
    ('accumulative_own_last_instant', ['C08'], BOTH, "            if spans[0][0] <= t <= max(self.temporal_snapshots_ids()):", "            if spans[0][0] <= t <= spans[-1][1]:"),
    # equivalent: accumulative presence uses only the first start and the global last id
    ('EQUIV_accumulative_honours_e', [], BOTH, "        if e is not None and self.edge_removal:\n            t[1] = e - 1\n", "        if e is not None:\n            t[1] = e - 1\n"),
    ('rejection_uses_first_run', ['C01', 'C07'], BOTH, "['t'][-1][0]:\n            raise ValueError", "['t'][0][0]:\n            raise ValueError"),
    # ---- queries
    ('successors_from_pred', ['C02'], (DIR,), "                return iter([i for i in self._succ[n] if self.__presence_test(n, i, t)])", "                return iter([i for i in self._pred[n] if self.__presence_test(i, n, t)])"),
    ('nbunch_ignored_with_t', ['C02'], (UND,), "        seen = {}  # helper dict to keep track of multiply stored interactions\n        if nbunch is None:\n            nodes_nbrs = self._adj.items()", "        seen = {}  # helper dict to keep track of multiply stored interactions\n        if nbunch is None or t is not None:\n            nodes_nbrs = self._adj.items()"),
    ('has_predecessor_direction', ['C02'], (DIR,), "        return self.has_interaction(v, u, t)", "        return self.has_interaction(u, v, t)"),
    ('in_degree_nbunch_t', ['C02'], (DIR,), "                edges_t = len([v for v in nbrs.keys() if self.__presence_test(v, n, t)])", "                edges_t = len([v for v in nbrs.keys() if self.__presence_test(v, n, t) or v == n])"),
    ('envelope_only_presence', ['C01', 'C02'], (UND,), "                for s in spans:\n                    if t in range(s[0], s[1] + 1):\n                        return True", "                return True"),
    ('non_neighbors_ignores_t', ['C02'], (FUN,), "    if graph.is_directed():\n        values = chain(graph.predecessors(node, t=t), graph.successors(node, t=t))\n    else:\n        values = graph.neighbors(node, t=t)\n\n    nbors", "    if graph.is_directed():\n        values = chain(graph.predecessors(node), graph.successors(node))\n    else:\n        values = graph.neighbors(node, t=t)\n\n    nbors"),
    ('get_node_snapshots_last', ['C02'], BOTH, "        return snaps\n", "        return snaps[-1:]\n"),
    # ---- time_slice / conversions
    ('slice_inclusive_end_branch2', ['C06'], BOTH, "H.add_interaction(u, v, a, i_to + 1)", "H.add_interaction(u, v, a, i_to)"),
    ('slice_wrong_start', ['C06'], BOTH, "H.add_interaction(u, v, f_from, b + 1)", "H.add_interaction(u, v, a, b + 1)"),
    ('slice_digraph_interactions_iter', ['C06'], (DIR,), "        for u, v, ts in self.out_interactions_iter():\n            i_to = t_to", "        for u, v, ts in self.interactions_iter():\n            i_to = t_to"),
    ('slice_returns_self', ['C06'], (UND,), "        # create new graph and copy subgraph into it\n        H = self.__class__()\n        if t_to is not None:", "        # create new graph and copy subgraph into it\n        H = self.__class__()\n        if t_to is not None and self.snapshots and t_from <= min(self.snapshots) and t_to >= max(self.snapshots):\n            return self\n        if t_to is not None:"),
    ('to_directed_shallow_nodes', ['C16'], (UND,), "        G._node = {n: deepcopy(d) for n, d in self._node.items()}\n        return G", "        G._node = dict(self._node)\n        return G"),
    ('to_directed_deepcopies_node_ids', ['C16'], (UND,), "        G._node = {n: deepcopy(d) for n, d in self._node.items()}\n        return G", "        G._node = deepcopy(self._node)\n        return G"),
    ('to_undirected_unsorted_merge', ['C16'], (DIR,), "                for t in sorted(intervals):", "                for t in intervals:"),
    ('to_undirected_shallow_graph_attrs', ['C16'], (DIR,), "        H.graph = deepcopy(self.graph)\n", "        H.graph = self.graph\n"),
    ('reciprocal_inclusive_end', ['C16'], (DIR,), "H.add_interaction(u, v, t=first, e=last + 1)", "H.add_interaction(u, v, t=first, e=last)"),
    ('reciprocal_is_union', ['C16'], (DIR,), "                if (v, u) in done or u not in self._succ[v]:\n                    continue", "                if (v, u) in done:\n                    continue\n                if u not in self._succ[v]:\n                    for o in data['t']:\n                        H.add_interaction(u, v, t=o[0], e=o[1] + 1)\n                    continue"),
    # ---- I/O
    ('single_instant_rows_dropped', ['C09'], (EDG,), "                else:\n                    yield delimiter.join(map(make_str, e))\n            else:", "                else:\n                    pass\n            else:"),
    ('snapshot_writer_encodes_row_by_row', ['C09'], (EDG,), "    for line in generate_snapshots(G, delimiter):\n        line += '\\n'\n        path.write(encoder.encode(line))", "    for line in generate_snapshots(G, delimiter):\n        line += '\\n'\n        path.write(line.encode(encoding))"),
    ('interaction_writer_encodes_row_by_row', ['C10'], (EDG,), "    for line in generate_interactions(G, delimiter):\n        line += '\\n'\n        path.write(encoder.encode(line))", "    for line in generate_interactions(G, delimiter):\n        line += '\\n'\n        path.write(line.encode(encoding))"),
    ('writer_ignores_delimiter', ['C09'], (EDG,), "    for line in generate_snapshots(G, delimiter):", "    for line in generate_snapshots(G):"),
    ('fourth_column_inclusive', ['C09'], (EDG,), "                if e is not None:\n                    e = timestamptype(e)\n", "                if e is not None:\n                    e = timestamptype(e) + 1\n"),
    ('interactions_reader_ignores_directed', ['C10'], (EDG,), "def parse_interactions(lines, comments='#', directed=False, delimiter=None, nodetype=None, timestamptype=None,\n                       keys=None):\n    if not directed:", "def parse_interactions(lines, comments='#', directed=False, delimiter=None, nodetype=None, timestamptype=None,\n                       keys=None):\n    if True:"),
    ('minus_refill_points', ['C10'], (EDG,), "                G.add_interaction(u, v, t=timestamps[-1][1], e=s)", "                for t in range(timestamps[-1][1], s):\n                    G.add_interaction(u, v, t=t)"),
    ('json_last_instant_lost', ['C11'], (JSN,), "            for tid in range(t[0], t[-1]+1):", "            for tid in range(t[0], max(t[0] + 1, t[-1])):"),
    ('json_node_attrs_dropped', ['C11'], (JSN,), "        graph.add_node(node, **nodedata)", "        graph.add_node(node)"),
    ('json_isolated_nodes_dropped', ['C11'], (JSN,), "            'nodes': [dict(chain(G._node[n].items(), [(id_, n)])) for n in G], 'links': []}", "            'nodes': [dict(chain(G._node[n].items(), [(id_, n)])) for n in G if G.degree(n) > 0], 'links': []}"),
    ('json_digraph_interactions_iter', ['C11'], (JSN,), "(G.out_interactions_iter() if G.is_directed() else G.interactions_iter())", "G.interactions_iter()"),
    ('short_rows_threshold', ['C18'], (EDG,), "        if len(s) != 4:\n            continue", "        if len(s) < 4:\n            continue"),
    ('comment_after_split', ['C18'], (EDG,), "        p = line.find(comments)\n        if p >= 0:\n            line = line[:p]\n        if not len(line):\n            continue\n        # split line, should have 2 or more", "        if line.lstrip().startswith(comments):\n            continue\n        if not len(line):\n            continue\n        # split line, should have 2 or more"),
    ('compact_reverse', ['C18'], (TRF,), "    tls = sorted(sind_list)", "    tls = sorted(sind_list, reverse=True)"),
    ('read_ids_len_line', ['C18'], (EDG,), "            if len(s) == 4:\n                if s[-2] not in ['+', '-']:", "            if len(line) == 4:\n                if s[-2] not in ['+', '-']:"),
    ('typeerror_becomes_valueerror', ['C18'], (EDG,), '                raise TypeError("Failed to convert timestamp %s to type %s." % (t, nodetype))', '                raise ValueError("Failed to convert timestamp %s to type %s." % (t, nodetype))'),
    ('gzip_extension_not_dispatched', ['C09'], (DEC,), "_dispatch_dict['.gzip'] = _open_gz\n", ""),
    # ---- paths
    ('reversal_filter_dropped', ['C12', 'C13'], (PTH,), "                    if l[0] == s[1] and l[1] == s[0] or l[2] == s[2]:", "                    if l[2] == s[2]:"),
    ('expiry_dropped', ['C12', 'C13'], (PTH,), "            if len(neighbors) == 0 and an != u:\n                to_remove.append(an)\n", ""),
    ('window_one_more_id', ['C12', 'C15'], (PTH,), "    ids = ids[start:end+1]", "    ids = ids[start:end+2]"),
    ('start_guard_dropped', ['C13'], (PTH,), "    if not G.has_node(u, start):\n        return []\n", ""),
    ('min_t_ignored', ['C13'], (PTH,), "    for u in tqdm.tqdm(G.nodes(t=min_t)):", "    for u in tqdm.tqdm(G.nodes()):"),
    ('frontier_stops_early', ['C13'], (PTH,), "        for n in to_add:\n            active[n] = None", "        for n in to_add[:2]:\n            active[n] = None"),
    # equivalent: the index lookup that follows raises ValueError as well
    ('EQUIV_end_above_last_id_accepted', [], (PTH,), "    if start < min(ids) or start > end or end > max(ids) or start > max(ids):", "    if start < min(ids) or start > end or start > max(ids):"),
    ('targets_all_neighbors', ['C15'], (PTH,), "                if f\"{v}_{tid}\" in neighbors:\n                    targets[f\"{v}_{tid}\"] = None", "                for k in neighbors:\n                    if k.startswith(f\"{v}\"):\n                        targets[k] = None"),
    ('shortest_ties_lost', ['C14'], (PTH,), "        elif length == shortest:\n            annotated['shortest'].append(copy.copy(path))", "        elif length == shortest and False:\n            annotated['shortest'].append(copy.copy(path))"),
    ('foremost_uses_departure', ['C14'], (PTH,), "        reach = path[-1][-1]", "        reach = path[0][-1]"),
    ('secondary_criteria_swapped', ['C14'], (PTH,), "    fastest_shortest = {tuple(path): path_duration(path) for path in annotated['shortest']}", "    fastest_shortest = {tuple(path): path_length(path) for path in annotated['shortest']}"),
    ('fastest_strict_le', ['C14'], (PTH,), "        if fastest is None or duration < fastest:", "        if fastest is None or duration <= fastest:"),
    # ---- statistics
    ('coverage_over_active_nodes', ['C17'], (UND,), "        T = len(self.snapshots)\n        V = self.number_of_nodes()\n", "        T = len(self.snapshots)\n        V = len([n for n in self.nodes() if len(self.neighbors(n)) > 0])\n"),
    ('out_event_uses_target', ['C17'], (DIR,), "                if ext[0] == u:\n\n                    if flag:", "                if ext[1] == u:\n\n                    if flag:"),
    ('pair_density_counts_ids_once', ['C17'], (UND,), "            if self.has_node(u, t) and self.has_node(v, t):\n                denominator += 1\n            if self.has_interaction(u, v, t):\n                numerator += 1\n\n        return 0 if denominator == 0 else numerator / denominator", "            if self.has_node(u, t) or self.has_node(v, t):\n                denominator += 1\n            if self.has_interaction(u, v, t):\n                numerator += 1\n\n        return 0 if denominator == 0 else numerator / denominator"),
    ('global_gaps_skip_first', ['C17'], (UND,), "            for ext in self.stream_interactions():\n                if first:\n                    delta = ext\n                    first = False\n                    continue\n                disp = ext[-1] - delta[-1]\n                delta = ext\n                if disp in dist:", "            for ext in self.stream_interactions():\n                if first:\n                    delta = ext\n                    first = False\n                    continue\n                disp = ext[-1] - delta[-1]\n                delta = ext\n                if disp == 0 and ext[2] == '-':\n                    continue\n                if disp in dist:"),
    # ---- blocked / frozen
    ('remove_nodes_from_unblocked', ['C19'], (UND,), "    @not_implemented()\n    def remove_nodes_from(self, nbunch):\n        pass", "    def remove_nodes_from(self, nbunch):\n        nx.Graph.remove_nodes_from(self, nbunch)"),
    ('decorator_returns_none', ['C19'], (DEC,), "        raise nx.NetworkXNotImplemented('Method not implemented for dynamic graphs')", "        return None"),
    # equivalent: remove_node still raises through @not_implemented
    ('EQUIV_freeze_forgets_remove_node', [], (FUN,), "    G.remove_node = frozen\n", ""),
    ('clear_keeps_stream', ['C19'], (DIR,), "        nx.DiGraph.clear(self)\n        self.time_to_edge = defaultdict(int)\n", "        nx.DiGraph.clear(self)\n"),
    ('update_unblocked_via_add_edges', ['C19'], (UND,), "    @not_implemented()\n    def add_edges_from(self, ebunch, attr_dict=None, **attr):\n        pass", "    def add_edges_from(self, ebunch, attr_dict=None, **attr):\n        for e in ebunch:\n            self._adj.setdefault(e[0], {})[e[1]] = {}\n            self._adj.setdefault(e[1], {})[e[0]] = {}\n            self._node.setdefault(e[0], {})\n            self._node.setdefault(e[1], {})"),
    # ---- conformity
    ('normalize_dropped', ['C20'], (ASS,), "        if len(sp) > 0:\n            res = __normalize(u, res, max(sp.keys()), alphas)", "        if len(sp) > 0 and False:\n            res = __normalize(u, res, max(sp.keys()), alphas)"),
    ('distance_times_alpha', ['C20'], (ASS,), "                        partial = sim / (dist ** alpha)", "                        partial = sim / (dist * alpha)"),
    ('sliding_guard_le', ['C20'], (ASS,), "        if t + delta < tids[-1]:", "        if t + delta <= tids[-1]:"),
    ('scores_all_slice_nodes', ['C20'], (ASS,), "{n: 0 for n in g.nodes(t=start)}", "{n: 0 for n in g.nodes()}"),
    ('label_sign_by_identity', ['C20'], (ASS,), "            sgn[v] = 1 if a_u == a_v else __distance(label, a_u, a_v, hierarchies)", "            sgn[v] = 1 if a_u <= a_v else __distance(label, a_u, a_v, hierarchies)"),
]


def run(cmd, cwd=None, env=None, timeout=3000):
    p = subprocess.run(cmd, cwd=cwd, env=env, stdout=subprocess.PIPE, stderr=subprocess.STDOUT, timeout=timeout, text=True)
    return p.returncode, p.stdout


def fail_oracles(out):
    """Sub-oracle ids of the FAIL lines of a check run (committed-replay failures are marked with *)."""
    subs = []
    for l in out.splitlines():
        if l.startswith('FAIL (committed replay'):
            rest = l.split(') ', 1)[1] if ') ' in l else ''
            sub = rest.split(':', 1)[0].split(' ')[0] + '*'
        elif l.startswith('FAIL '):
            sub = l.split(' ')[1]
        else:
            continue
        if sub not in subs:
            subs.append(sub)
    return subs


def stable_tests():
    b = json.load(open('/root/.vp/BASELINE.json'))
    return set(b['stable_pass'])


def run_tests(scratch):
    import xml.etree.ElementTree as ET
    xmlp = os.path.join(scratch, '_junit.xml')
    env = dict(os.environ, TQDM_DISABLE='1')
    code, out = run(['/venv/bin/python', '-m', 'pytest', '-q', '-p', 'no:cacheprovider', '--timeout=600', '--junitxml=' + xmlp, 'dynetx/test'],
                    cwd=scratch, env=env)
    passed = set()
    try:
        for tc in ET.parse(xmlp).getroot().iter('testcase'):
            if not any(ch.tag in ('failure', 'error', 'skipped') for ch in tc):
                passed.add('%s::%s' % (tc.get('classname'), tc.get('name')))
    except Exception:
        pass
    missing = stable_tests() - passed
    return sorted(missing)


def main(argv):
    only = None
    props_filter = None
    tier = 'quick'
    i = 0
    while i < len(argv):
        if argv[i] == '--only':
            only = set(argv[i + 1].split(','))
            i += 2
        elif argv[i] == '--props':
            props_filter = set(argv[i + 1].split(','))
            i += 2
        elif argv[i] == '--tier':
            tier = argv[i + 1]
            i += 2
        else:
            i += 1
    os.makedirs(os.path.join(HERE, 'mutants'), exist_ok=True)
    resp = os.path.join(HERE, 'mutants', 'RESULTS.json')
    results = json.load(open(resp)) if os.path.exists(resp) else {}
    for name, props, files, old, new in M:
        if name.startswith('EQUIV_'):
            results[name] = {'status': 'equivalent (no observable difference for the property; see comment in tools/mutants.py)'}
            continue
        if only and name not in only:
            continue
        if props_filter and not (set(props) & props_filter):
            continue
        scratch = tempfile.mkdtemp(prefix='dxmut_')
        try:
            run(['git', '-C', REPO, 'worktree', 'prune'])
            shutil.rmtree(scratch)
            shutil.copytree(REPO, scratch, ignore=shutil.ignore_patterns('.git', '__pycache__', '*.pyc', 'docs'))
            applied = 0
            for f in files:
                p = os.path.join(scratch, f)
                s = open(p).read()
                if s.count(old) != 1:
                    continue
                open(p, 'w').write(s.replace(old, new))
                applied += 1
            if applied == 0:
                results[name] = {'status': 'does-not-apply', 'props': props}
                print('%-40s DOES NOT APPLY' % name)
                continue
            code, diff = run(['git', 'diff', '--no-index', '--', REPO + '/dynetx', scratch + '/dynetx'])
            diff = diff.replace(scratch, '/repo').replace('a/repo/', 'a/').replace('b/repo/', 'b/')
            with open(os.path.join(HERE, 'mutants', name + '.patch'), 'w') as f:
                f.write(diff)
            missing = run_tests(scratch)
            if missing:
                results[name] = {'status': 'breaks-tests', 'props': props, 'failing_stable_tests': missing[:5]}
                print('%-40s breaks %d stable tests (discarded): %s' % (name, len(missing), missing[:2]))
                continue
            env = dict(os.environ, DYNETX_REPO=scratch, VERIF_SEED=os.environ.get('VERIF_SEED', '1'))
            killed_by = []
            survived = []
            for p in props:
                code, out = run([os.path.join(HERE, 'check'), p, tier], cwd=HERE, env=env)
                viol = [l for l in out.splitlines() if l.startswith('VIOLATION')]
                fails = fail_oracles(out)
                if code == 1 and viol:
                    killed_by.append({'prop': p, 'oracles': fails[:6]})
                elif code == 2:
                    survived.append(p + '(harness error)')
                else:
                    survived.append(p)
            status = 'killed' if killed_by and not survived else ('partly' if killed_by else 'SURVIVED')
            results[name] = {'status': status, 'props': props, 'killed_by': killed_by, 'not_noticed_by': survived, 'tier': tier}
            print('%-40s %-9s %s %s' % (name, status, ','.join(k['prop'] + ':' + '|'.join(k['oracles'][:2]) for k in killed_by),
                                         ('NOT NOTICED BY ' + ','.join(survived)) if survived else ''))
            sys.stdout.flush()
        finally:
            shutil.rmtree(scratch, ignore_errors=True)
            # the checks rewrite evidence/ and out/: restore evidence from git afterwards
        json.dump(results, open(resp, 'w'), indent=1, sort_keys=True)
    run(['git', '-C', HERE, 'checkout', '--', 'evidence'])
    return 0


if __name__ == '__main__':
    sys.exit(main(sys.argv[1:]))
