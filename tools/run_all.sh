#!/bin/bash
# tools/run_all.sh [tier] [seed...]   - runs every check, one line per (property, seed)
cd "$(dirname "$0")/.." || exit 2
tier=${1:-quick}; shift
seeds=${@:-1}
for s in $seeds; do
  for i in $(seq -w 1 20); do
    p=C$i
    out=$(VERIF_SEED=$s timeout 1500 ./check $p $tier 2>&1); code=$?
    echo "seed=$s $p exit=$code $(echo "$out" | grep -E "^$p $tier" | cut -c1-160) $(echo "$out" | grep -c '^VIOLATION') violation-lines"
  done
done
