#!/venv/bin/python
"""Regenerates /verif/MANIFEST.json from the property modules that exist."""
import importlib
import json
import os
import sys

HERE = os.path.dirname(os.path.dirname(os.path.abspath(__file__)))
sys.path.insert(0, HERE)
sys.path.insert(0, os.environ.get('DYNETX_REPO', '/repo'))

props = [json.loads(l) for l in open(os.path.join(HERE, 'properties.jsonl'))]
checks, na = [], []
for p in props:
    pid = p['id']
    path = os.path.join(HERE, 'dxverif', 'props', pid.lower() + '.py')
    if not os.path.exists(path):
        na.append({'property_id': pid, 'reason': 'check not built yet (planned in DESIGN.md section 6); the technique applies'})
        continue
    mod = importlib.import_module('dxverif.props.' + pid.lower())
    checks.append({
        'property_id': pid,
        'quick_cmd': './check %s quick' % pid,
        'thorough_cmd': './check %s thorough' % pid,
        'evidence_file': 'evidence/%s.json' % pid,
        'replay_cmd_template': './check %s --replay {path}' % pid,
        'engine': 'dxverif',
        'level_claimed': {
            'category': 'exploration',
            'text': getattr(mod, 'LEVEL', 'Generated-input search (Hypothesis, seeded from VERIF_SEED, 16 shards) against an '
                            'explicit oracle; failures are collected per sub-oracle, shrunk with ddmin and written as '
                            'replay files; listed known findings are matched by trigger and footprint only. No absence '
                            'claim beyond the explored sizes. Explored: ') + mod.RULE,
            'design_ref': 'DESIGN.md section 6, ' + pid,
        },
        'level_note': getattr(mod, 'NOTE', 'Trusted: the reference model (dxverif/model.py, self-tested on hand-computed cases), '
                              'networkx as differential oracle where named, Hypothesis as generator. ') + ' Assumes: ' + '; '.join(mod.ASSUMPTIONS),
        'technique': getattr(mod, 'TECHNIQUE', 'property-based testing: Hypothesis-generated histories vs reference model'),
    })
manifest = {
    'version': 1,
    'setup_cmd': './setup.sh',
    'hooks': {
        'guard': 'DYNETX_VERIF',
        'enable': 'no hooks are needed: every property is observable through the public API; checks import /repo sources directly (python -B, DYNETX_REPO=/repo)',
        'baseline_off_cmd': 'cd /repo && /venv/bin/python -m pytest -ra -q -p no:cacheprovider --timeout=900 --continue-on-collection-errors dynetx/test',
        'source_commits': [],
        'add_only': True,
    },
    'engines': [{'name': 'dxverif', 'path': 'dxverif/', 'serves_properties': [c['property_id'] for c in checks],
                 'kind_free_text': 'Python framework: Hypothesis strategies + reference model + per-sub-oracle failure collection, ddmin shrinking, replay files; exhaustive small-universe sweeps in the thorough tier'}],
    'checks': checks,
    'not_applicable': na,
    'notes': 'See DESIGN.md. Known findings (genuine defects pinned by the repository tests) are listed in KNOWN_FINDINGS.txt; fixed defects are fix: commits in /repo.',
}
json.dump(manifest, open(os.path.join(HERE, 'MANIFEST.json'), 'w'), indent=1)
print('checks:', [c['property_id'] for c in checks], 'not_applicable:', [n['property_id'] for n in na])
