#!/venv/bin/python
"""Independently written breaking changes (/verif/seeded/<name>/: patch.diff, demo.py, meta.json).

    tools/seeded.py ingest <source dir with patch.diff demo.py notes.md> <name> <C01[,C05...]> [original worktree path]
        confirms on scratch copies of /repo that (a) the patch applies and the stable tests still pass,
        (b) the demo fails with the patch and passes without; then stores it under seeded/<name>/.
    tools/seeded.py run [--tier quick] [name ...]
        applies each stored change to a scratch copy, runs the checks named in its meta.json (plus any
        given with --props) with DYNETX_REPO=<scratch>, records which sub-oracles fired in seeded/RESULTS.json.
Scratch copies live under mktemp -d and are removed; /repo is never modified.
"""
import json
import os
import re
import shutil
import subprocess
import sys
import tempfile

HERE = os.path.dirname(os.path.dirname(os.path.abspath(__file__)))
sys.path.insert(0, os.path.join(HERE, 'tools'))
from mutants import run, run_tests, fail_oracles  # noqa: E402

REPO = '/repo'


def scratch_copy():
    d = tempfile.mkdtemp(prefix='dxseed_')
    shutil.rmtree(d)
    shutil.copytree(REPO, d, ignore=shutil.ignore_patterns('.git', '__pycache__', '*.pyc', 'docs'))
    return d


def apply_patch(scratch, patch):
    code, out = run(['patch', '-p1', '--no-backup-if-mismatch', '-i', patch], cwd=scratch)
    return code == 0, out


def run_demo(demo, scratch):
    env = dict(os.environ, DYNETX_REPO=scratch, TQDM_DISABLE='1', PYTHONDONTWRITEBYTECODE='1')
    code, out = run(['/venv/bin/python', '-B', demo], cwd=os.path.dirname(demo), env=env, timeout=600)
    return code, out


def ingest(src, name, props, wt=None):
    dst = os.path.join(HERE, 'seeded', name)
    os.makedirs(dst, exist_ok=True)
    shutil.copy(os.path.join(src, 'patch.diff'), os.path.join(dst, 'patch.diff'))
    demo = open(os.path.join(src, 'demo.py')).read()
    if wt:
        demo = demo.replace("'%s'" % wt, "__import__('os').environ.get('DYNETX_REPO', '/repo')").replace(
            '"%s"' % wt, "__import__('os').environ.get('DYNETX_REPO', '/repo')")
    if wt and wt in demo:
        print('warning: demo still mentions', wt)
    open(os.path.join(dst, 'demo.py'), 'w').write(demo)
    notes = open(os.path.join(src, 'notes.md')).read() if os.path.exists(os.path.join(src, 'notes.md')) else ''
    ran = []
    clean = scratch_copy()
    patched = scratch_copy()
    try:
        ok, out = apply_patch(patched, os.path.join(dst, 'patch.diff'))
        ran.append('patch -p1 on a scratch copy of /repo: %s' % ('applied' if ok else 'FAILED ' + out[-300:]))
        if not ok:
            print(ran[-1])
            return False
        missing = run_tests(patched)
        ran.append('stable tests with the change: %s' % ('all 52 pass' if not missing else 'FAIL %r' % missing[:3]))
        c0, o0 = run_demo(os.path.join(dst, 'demo.py'), clean)
        c1, o1 = run_demo(os.path.join(dst, 'demo.py'), patched)
        ran.append('demo on the unchanged tree: exit %d; demo with the change: exit %d' % (c0, c1))
        good = (not missing) and c0 == 0 and c1 != 0
        meta = {'name': name, 'breaks': props, 'needs_to_manifest': notes.strip()[:3000], 'confirmed': good, 'what_i_ran': ran,
                'demo_output_with_change': o1[-1500:]}
        json.dump(meta, open(os.path.join(dst, 'meta.json'), 'w'), indent=1)
        print(name, 'confirmed' if good else 'NOT CONFIRMED', ran)
        return good
    finally:
        shutil.rmtree(clean, ignore_errors=True)
        shutil.rmtree(patched, ignore_errors=True)


def run_checks(names, tier, extra_props):
    resp = os.path.join(HERE, 'seeded', 'RESULTS.json')
    results = json.load(open(resp)) if os.path.exists(resp) else {}
    base = os.path.join(HERE, 'seeded')
    for name in sorted(os.listdir(base)):
        d = os.path.join(base, name)
        if not os.path.isdir(d) or (names and name not in names):
            continue
        meta = json.load(open(os.path.join(d, 'meta.json')))
        props = list(dict.fromkeys(meta['breaks'] + extra_props))
        scratch = scratch_copy()
        try:
            ok, out = apply_patch(scratch, os.path.join(d, 'patch.diff'))
            if not ok:
                results[name] = {'status': 'patch does not apply any more'}
                print(name, results[name])
                continue
            env = dict(os.environ, DYNETX_REPO=scratch, VERIF_SEED=os.environ.get('VERIF_SEED', '1'))
            caught, missed = [], []
            for p in props:
                code, out = run([os.path.join(HERE, 'check'), p, tier], cwd=HERE, env=env)
                fails = fail_oracles(out)
                if code == 1 and any(l.startswith('VIOLATION') for l in out.splitlines()):
                    caught.append({'prop': p, 'oracles': fails[:8]})
                else:
                    missed.append(p + ('(harness error)' if code == 2 else ''))
            results[name] = {'status': 'caught' if caught and not [m for m in missed if m in meta['breaks']] else ('partly' if caught else 'MISSED'),
                             'tier': tier, 'caught_by': caught, 'not_noticed_by': missed}
            print('%-28s %-7s %s %s' % (name, results[name]['status'], ', '.join(c['prop'] + ':' + '|'.join(c['oracles'][:3]) for c in caught),
                                         ('not noticed by ' + ','.join(missed)) if missed else ''))
            sys.stdout.flush()
        finally:
            shutil.rmtree(scratch, ignore_errors=True)
        json.dump(results, open(resp, 'w'), indent=1, sort_keys=True)


def confirm(names):
    """Re-confirm stored changes against the current /repo (after a fix commit moved the code)."""
    base = os.path.join(HERE, 'seeded')
    allok = True
    for name in sorted(os.listdir(base)):
        d = os.path.join(base, name)
        if not os.path.isdir(d) or (names and name not in names):
            continue
        clean, patched = scratch_copy(), scratch_copy()
        try:
            ok, out = apply_patch(patched, os.path.join(d, 'patch.diff'))
            missing = run_tests(patched) if ok else ['patch does not apply']
            c0, _ = run_demo(os.path.join(d, 'demo.py'), clean)
            c1, _ = run_demo(os.path.join(d, 'demo.py'), patched) if ok else (0, '')
            good = ok and not missing and c0 == 0 and c1 != 0
            allok &= good
            print('%-48s %s (applies=%s, stable tests failing=%d, demo clean/changed exit=%d/%d)' % (
                name, 'confirmed' if good else 'NOT CONFIRMED', ok, len(missing), c0, c1))
            sys.stdout.flush()
        finally:
            shutil.rmtree(clean, ignore_errors=True)
            shutil.rmtree(patched, ignore_errors=True)
    return allok


if __name__ == '__main__':
    a = sys.argv[1:]
    if a and a[0] == 'confirm':
        sys.exit(0 if confirm(a[1:]) else 1)
    if a and a[0] == 'ingest':
        sys.exit(0 if ingest(a[1], a[2], a[3].split(','), a[4] if len(a) > 4 else None) else 1)
    if a and a[0] == 'run':
        tier = 'quick'
        extra = []
        names = []
        i = 1
        while i < len(a):
            if a[i] == '--tier':
                tier = a[i + 1]
                i += 2
            elif a[i] == '--props':
                extra = a[i + 1].split(',')
                i += 2
            else:
                names.append(a[i])
                i += 1
        run_checks(names, tier, extra)
        sys.exit(0)
    print(__doc__)
