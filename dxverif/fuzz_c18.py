"""atheris (libFuzzer) target for the two line parsers; the semantic oracle lives in props/c18.py.

    python -B -m dxverif.fuzz_c18 <corpus dir> [libFuzzer flags]
"""
import os
import sys

HERE = os.path.dirname(os.path.dirname(os.path.abspath(__file__)))
REPO = os.path.abspath(os.environ.get('DYNETX_REPO', '/repo'))
sys.path.insert(0, REPO)
sys.path.append(os.path.join(HERE, '.deps'))
os.environ.setdefault('TQDM_DISABLE', '1')

import atheris  # noqa: E402

with atheris.instrument_imports(include=['dynetx']):
    import dynetx  # noqa: E402,F401

from dxverif.props.c18 import fuzz_oracle  # noqa: E402


def TestOneInput(data):
    fails = fuzz_oracle(data)
    if fails:
        raise AssertionError('%s: %s' % fails[0])


if __name__ == '__main__':
    atheris.Setup(sys.argv, TestOneInput)
    atheris.Fuzz()
