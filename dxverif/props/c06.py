"""C06 - time_slice keeps exactly the presence inside the window, in a new graph."""
from hypothesis import strategies as st

from .. import gen
from ..drive import Driver
from ..observe import observe, diff
from . import common
from .common import safe

ID = 'C06'
RULE = ('Reachable removal-enabled states of both classes (histories of 1-12 calls incl. node attributes, self-loops, '
        'reciprocal arcs) x 3 windows whose bounds are drawn from {run start, run end, +-1 around them, range+-2}; modes: '
        '[a,b], t_to omitted, inverted. Oracles: class; presence of H == model.slice over all ordered pairs x probes; '
        'nodes == endpoints of the sliced interactions with G\'s attribute dicts (values include objects equal only to themselves that refuse copying); observe(G) unchanged; H well formed '
        '(C03 timelines, C04 snapshot index, C05 stream, C02 battery); slice of a slice == slice by the intersection '
        '(empty graph when disjoint); t_to < t_from raises ValueError; dn.time_slice agrees. '
        'non-trivial = the window cuts a run strictly inside and misses another run entirely.')
ASSUMPTIONS = ['e > t in the generated histories']
TECHNIQUE = 'model-based PBT with metamorphic relation (slice of slice == slice of intersection) and invariant checks on the result'
BUDGET = {'quick': {'cases': 8000, 'seconds': 45}, 'thorough': {'cases': 300000, 'seconds': 540}}

WIN = st.lists(st.tuples(st.integers(0, 63), st.integers(0, 63), st.sampled_from(['range', 'range', 'range', 'single', 'inverted'])),
               min_size=3, max_size=3)


def strategy(tier):
    return st.tuples(gen.tiered(tier, max_ops=12, rejects=False, attrs='handles', shifts=True), WIN, WIN).map(
        lambda x: dict(x[0], win=[list(w) for w in x[1]], win2=[list(w) for w in x[2]]))


def exhaustive(tier):
    """Every tier: the fixed very long histories (a pair with 65-300 runs), each with windows that start and end on
    run starts, run ends and their neighbours."""
    cases = []
    for k, c in enumerate(gen.very_long_cases()):
        wins = [[(7 * k + 13 * j) % 64, (11 * k + 29 * j + 3) % 64, 'range'] for j in range(3)]
        cases.append(dict(c, win=wins, win2=wins[::-1]))
    return {'cases': cases, 'bound': '%d fixed very long histories (one pair with 65-300 runs) x 3 windows' % len(cases)}


def interesting(M):
    pts = set()
    for k in M.orient:
        for s, e in M.runs(k):
            pts |= {s - 1, s, s + 1, e - 1, e, e + 1}
    if not pts:
        pts = {0}
    pts |= {min(pts) - 2, max(pts) + 2}
    return sorted(pts)


def window(pts, w):
    ia, ib, mode = w
    a, b = pts[ia % len(pts)], pts[ib % len(pts)]
    if mode == 'range':
        return min(a, b), max(a, b), mode
    if mode == 'single':
        return a, None, mode
    if b >= a:
        b = a - 1 - (ib % 3)
    return a, b, mode


def check_slice(rec, prefix, H, Hm, G, M, nodes, ctx, full=True):
    import dynetx as dn
    res = rec.check(prefix + '.class', type(H) is type(G), lambda: '%s returned %r for %r' % (ctx, type(H), type(G)))
    res &= common.check_presence(rec, prefix + '.presence', H, Hm, nodes, ctx=ctx, probes=M.probes())
    ok, hn = safe(lambda: list(H.nodes()))
    res &= rec.check(prefix + '.nodes', ok and len(hn) == len(set(hn)) and set(hn) == set(Hm.nodes),
                     lambda: '%s nodes() = %r, endpoints of the sliced interactions are %r' % (ctx, hn, list(Hm.nodes)))
    ok, hd = safe(lambda: dict(H.nodes(data=True)))
    exp = {n: M.nodes[n] for n in Hm.nodes}
    res &= rec.check(prefix + '.attrs', ok and hd == exp, lambda: '%s nodes(data=True) = %r, expected %r' % (ctx, hd, exp))
    if full:
        res &= common.check_timelines(rec, prefix + '.wf.timelines', H, Hm, ctx=ctx)
        res &= common.check_snapshots(rec, prefix + '.wf.snapshots', H, Hm, ctx=ctx, probes=M.probes())
        res &= common.check_stream(rec, prefix + '.wf.stream', H, Hm, ctx=ctx)
        battery = getattr(common, 'check_queries', None)
        if battery is not None:
            res &= battery(rec, prefix + '.wf.q', H, Hm, nodes, ctx=ctx, probes=M.probes(), light=True)
    return res


def run_case(case, rec):
    import dynetx as dn
    d = Driver(case)
    for op in case['ops']:
        r = d.step(op)
        if r['actual'] != r['expected']:
            rec.note('outcome_mismatch(left to C01)')
            return False
    G, M = d.G, d.M
    pts = interesting(M)
    nontrivial = False
    for wi, w in enumerate(case['win']):
        a, b, mode = window(pts, w)
        ctx = 'time_slice(%s, %s)' % (common.R(a), common.R(b))
        ok, before = safe(observe, G, d.nodes, M.probes())
        if not ok:
            rec.check('C06.observe', False, 'observe(G) raised %r' % (before,))
            return False
        if mode == 'inverted':
            ok, H = safe(G.time_slice, a, b)
            rec.check('C06.inverted', (not ok) and type(H) is ValueError, lambda: '%s returned/raised %r' % (ctx, H))
            ok, H = safe(dn.time_slice, G, a, b)
            rec.check('C06.inverted', (not ok) and type(H) is ValueError, lambda: 'dn.%s returned/raised %r' % (ctx, H))
            rec.classify('inverted')
        else:
            if b is None:
                ok, H = safe(G.time_slice, a)
                lo, hi = a, a
                rec.classify('t_to omitted')
            else:
                ok, H = safe(G.time_slice, a, b) if wi % 2 == 0 else safe(lambda: G.time_slice(t_from=a, t_to=b))
                lo, hi = a, b
            if not rec.check('C06.call', ok, lambda: '%s raised %r' % (ctx, H)):
                continue
            Hm = M.slice(lo, hi)
            check_slice(rec, 'C06', H, Hm, G, M, d.nodes, ctx)
            rec.check('C06.new_graph', H is not G, lambda: '%s returned the source graph itself' % ctx)
            ok, H1 = safe(dn.time_slice, G, a, b) if b is not None else safe(dn.time_slice, G, a)
            if rec.check('C06.call', ok, lambda: 'dn.%s raised %r' % (ctx, H1)):
                ok, (o1, o2) = safe(lambda: (observe(H, d.nodes, M.probes()), observe(H1, d.nodes, M.probes())))
                rec.check('C06.functional', ok and o1 == o2, lambda: 'dn.%s differs from the method in %r' % (ctx, diff(o1, o2) if ok else o1))
            # the slice stays a usable graph: more calls behave as on any graph with that presence
            ok, Hc = safe(G.time_slice, a, b) if b is not None else safe(G.time_slice, a)
            if ok:
                common.check_continuation(rec, 'C06.wf.continue', Hc, Hm, case, d.nodes, ctx=ctx, k=wi + len(case['ops']))
                # ... and writing to the slice must not write to the graph it came from
                common.check_presence(rec, 'C06.new_graph.source_after_slice_grew', G, M, d.nodes, ctx=ctx)
                common.check_timelines(rec, 'C06.new_graph.source_after_slice_grew', G, M, ctx=ctx)
            # classification / non-triviality
            cut = miss = False
            for k in M.orient:
                for s, e in M.runs(k):
                    if e < lo or s > hi:
                        miss = True
                    elif (s < lo <= e) or (s <= hi < e):
                        cut = True
            if cut:
                rec.classify('window cuts a run')
            if miss:
                rec.classify('window misses a run')
            if not Hm.orient:
                rec.classify('window misses everything')
            nontrivial |= cut and miss
            # composition
            c, dd, mode2 = window(pts, case['win2'][wi])
            if mode2 != 'inverted':
                if dd is None:
                    dd = c
                ctx2 = '%s.time_slice(%s, %s)' % (ctx, common.R(c), common.R(dd))
                ok, H2 = safe(H.time_slice, c, dd)
                if rec.check('C06.compose.call', ok, lambda: '%s raised %r' % (ctx2, H2)):
                    H2m = M.slice(max(lo, c), min(hi, dd)) if max(lo, c) <= min(hi, dd) else M.slice(1, 0)
                    check_slice(rec, 'C06.compose', H2, H2m, H, Hm, d.nodes, ctx2, full=False)
                    rec.classify('compose:' + ('intersecting' if max(lo, c) <= min(hi, dd) else 'disjoint'))
        ok, after = safe(observe, G, d.nodes, M.probes())
        rec.check('C06.source_unchanged', ok and after == before,
                  lambda: '%s changed the source graph in %r' % (ctx, diff(before, after) if ok else after))
    # second life: the sliced object is emptied with clear() and refilled with the same history played later (same
    # number of snapshot ids, an extent disjoint from the old one); a slice of the new content must not remember the old
    inst = M.mentioned_instants()
    if inst and len(case['ops']) % 2 == 1:
        from ..drive import shifted
        K = max(inst) - min(inst) + 7
        ok, _ = safe(G.clear)
        if ok:
            d2 = Driver(dict(case, ops=[shifted(op, K) for op in case['ops']]))
            d2.G = G
            if all(d2.step(op)['actual'] == d2.last['expected'] for op in d2.case['ops']) and d2.M.orient:
                pts2 = interesting(d2.M)
                for w in case['win'][:2]:
                    a, b, mode = window(pts2, w)
                    if mode != 'range':
                        continue
                    ctx = 'after clear() and refill %s instants later: time_slice(%s, %s)' % (common.R(K), common.R(a), common.R(b))
                    ok, H = safe(G.time_slice, a, b)
                    if rec.check('C06.second_life.call', ok, lambda: '%s raised %r' % (ctx, H)):
                        check_slice(rec, 'C06.second_life', H, d2.M.slice(a, b), G, d2.M, d2.nodes, ctx, full=False)
                rec.classify('sliced again after clear() and refill')
    for c in d.classes:
        rec.classify(c)
    rec.classify(case['cls'])
    if any(op[0] in ('node', 'nodes_from') and 'hnd' in repr(op[2]) for op in case['ops']):
        rec.classify('node attribute value equal only to itself / not copyable')
    return nontrivial
