"""C11 - JSON node-link data round-trips class, nodes, attributes and presence."""
import copy
import json
from collections import Counter

from hypothesis import strategies as st

from .. import gen
from ..drive import Driver
from . import common
from .common import safe

ID = 'C11'
RULE = ('Reachable removal-enabled states of both classes with JSON-native node ids (ints or strings incl. \'\' and '
        'non-ASCII), isolated attributed nodes, nested node attributes (lists/dicts/numbers/strings/None/bools), graph '
        "attributes, default and custom attrs['id']. Oracles: json.dumps(node_link_data(G)) succeeds; data['directed']; "
        'every node listed once with its attributes under the id key; links as a multiset == one {source,target,time} '
        'per model interaction and instant (oriented when directed); node_link_graph(json.loads(json.dumps(data))) has the '
        'same class, nodes, node attributes, graph attributes and presence (all ordered pairs x probes); the directed '
        'argument decides the class only when the key is deleted from the data. non-trivial = an isolated attributed '
        'node, a multi-run pair and (directed) a reciprocal pair.')
ASSUMPTIONS = ['e > t', 'node attribute names differ from the id key; attribute values are JSON-native']
TECHNIQUE = 'round-trip PBT through json.dumps/json.loads with structural oracle on the node-link data'
BUDGET = {'quick': {'cases': 10000, 'seconds': 45}, 'thorough': {'cases': 400000, 'seconds': 540}}
KINDS = ['add', 'add', 'add', 'add', 'add_from', 'path', 'node', 'node', 'node', 'nodes_from', 'recip', 'recip']
GATTR = st.dictionaries(st.sampled_from(['name', 'meta', 'tags', 'edge_removal', 'data', 'directed']), gen.ATTR_VALUES, max_size=2)


def strategy(tier):
    return st.tuples(gen.tiered(tier, max_ops=12, min_ops=3, rejects=False, kinds=KINDS, node_kinds=('int', 'str'), uni=(4, 6)), GATTR,
                     st.sampled_from(['id', 'id', 'nid', 'name']), st.sampled_from([None] * 5 + ['np64'])).map(
        lambda x: dict(x[0], gattr=x[1], idkey=x[2], **({'tkind': x[3]} if x[3] else {})))


def nest(n):
    x = []
    for _ in range(n):
        x = [x]
    return x


def exhaustive(tier):
    cases = []
    for cls in ('DynGraph', 'DynDiGraph'):
        for depth in (300, 520):
            cases.append({'cls': cls, 'removal': True, 'nodes': [0, 1, 2, 3], 'deep': depth, 'idkey': 'id', 'gattr': {},
                          'ops': [['add', 0, 1, 2, 5], ['add', 1, 0, 3, None], ['add', 2, 2, 4, None], ['node', 3, {'w': [1]}]]})
    return {'cases': cases, 'bound': '4 fixed graphs whose graph attribute is a list nested 300 / 520 levels deep'}


def run_case(case, rec):
    import dynetx as dn
    from dynetx.readwrite import json_graph
    d = Driver(case)
    for op in case['ops']:
        r = d.step(op)
        if r['actual'] != r['expected']:
            rec.note('outcome_mismatch(left to C01)')
            return False
    G, M = d.G, d.M
    # every second case gets an isolated node with (possibly falsy / nested) attributes, when the universe has a spare id
    spare = [n for n in d.nodes if n not in M.nodes]
    if spare and len(case['ops']) % 2 == 0:
        iso_attrs = {'Label': case.get('gattr', {}).get('meta', 0), 'w': ''}
        G.add_node(spare[0], **copy.deepcopy(iso_attrs))
        M.add_node(spare[0], iso_attrs)
    if case.get('deep'):
        # a graph attribute nested hundreds of levels deep: JSON copes with it, so must the round trip (built twice,
        # iteratively - the harness itself must not recurse over it)
        G.graph['meta'] = nest(case['deep'])
        M.graph = dict(G.graph, meta=nest(case['deep']))
        rec.classify('graph attribute nested %d levels deep' % case['deep'])
    else:
        G.graph.update(copy.deepcopy(case.get('gattr', {})))
        M.graph = copy.deepcopy(dict(G.graph))
    idk = case.get('idkey', 'id')
    if idk != 'id' and M.nodes and len(case['ops']) % 3 == 0:
        # with a custom id key, 'id' is an ordinary attribute name - here even one whose value is the node id
        n0 = list(M.nodes)[0]
        G.add_node(n0, id=n0)
        M.add_node(n0, {'id': n0})
        rec.classify("attribute named 'id' under a custom id key")
    attrs = dict(id=idk, source='source', target='target')
    ctx = '%s id key %r' % (case['cls'], idk)
    rec.classify('idkey:' + idk)
    if d.tconv is not None:
        rec.classify('timestamps given as numpy.int64')
    from ..observe import observe as _obs
    okb, before_obs = safe(_obs, G, d.nodes, M.probes())
    if not okb:
        before_obs = None
    ok, data = safe(lambda: json_graph.node_link_data(G) if idk == 'id' else json_graph.node_link_data(G, attrs=attrs))
    if not rec.check('C11.data.call', ok, lambda: '%s node_link_data raised %r' % (ctx, data)):
        return False
    ok, text = safe(json.dumps, data)
    if not rec.check('C11.serialisable', ok, lambda: '%s json.dumps raised %r on %r' % (ctx, text, data)):
        return False
    rec.check('C11.directed_flag', data.get('directed') is d.directed, lambda: '%s data[directed] = %r' % (ctx, data.get('directed')))
    nodes_ok = isinstance(data.get('nodes'), list) and all(isinstance(x, dict) and idk in x for x in data['nodes'])
    if rec.check('C11.nodes', nodes_ok, lambda: '%s data[nodes] = %r' % (ctx, data.get('nodes'))):
        got = {}
        dup = False
        for x in data['nodes']:
            dup |= x[idk] in got
            got[x[idk]] = {k: v for k, v in x.items() if k != idk}
        rec.check('C11.nodes', not dup and got == M.nodes, lambda: '%s data[nodes] = %r, graph nodes %r' % (ctx, data['nodes'], M.nodes))
    rec.check('C11.graph_attrs', data.get('graph') == M.graph, lambda: '%s data[graph] = %r, expected %r' % (ctx, data.get('graph'), M.graph))
    links = data.get('links')
    if rec.check('C11.links', isinstance(links, list) and all(isinstance(l, dict) and set(l) == {'source', 'target', 'time'} for l in links),
                 lambda: '%s data[links] = %r' % (ctx, links)):
        exp = Counter()
        for k, (u, v) in M.orient.items():
            for t in M.pres[k]:
                exp[((u, v) if d.directed else frozenset((u, v)), t)] += 1
        got = Counter((((l['source'], l['target']) if d.directed else frozenset((l['source'], l['target']))), l['time']) for l in links)
        rec.check('C11.links', got == exp, lambda: '%s links missing %r, unexpected %r' % (
            ctx, sorted((exp - got).elements(), key=repr)[:5], sorted((got - exp).elements(), key=repr)[:5]))
    # ---- calling again gives the same data and the source graph is untouched by all of this
    ok, data2 = safe(lambda: json_graph.node_link_data(G) if idk == 'id' else json_graph.node_link_data(G, attrs=attrs))
    rec.check('C11.data.stable', ok and json.dumps(data2, sort_keys=True) == json.dumps(json.loads(text), sort_keys=True),
              lambda: '%s second node_link_data call differs: %r vs %r' % (ctx, data2, data))
    okd, data3 = safe(json_graph.node_link_data, G)
    rec.check('C11.data.stable', okd and all('id' in x for x in data3['nodes']),
              lambda: '%s default id key after a call with a custom one: %r' % (ctx, data3))
    # ---- rebuild
    back = json.loads(text)
    ok, H = safe(lambda: json_graph.node_link_graph(json.loads(text)) if idk == 'id' else json_graph.node_link_graph(json.loads(text), attrs=attrs))
    if rec.check('C11.rebuild.call', ok, lambda: '%s node_link_graph raised %r on %r' % (ctx, H, back)):
        rec.check('C11.rebuild.class', type(H) is type(G), lambda: '%s rebuilt as %r' % (ctx, type(H)))
        okn, hn = safe(lambda: dict(H.nodes(data=True)))
        rec.check('C11.rebuild.nodes', okn and set(hn) == set(M.nodes), lambda: '%s rebuilt nodes %r, expected %r' % (ctx, hn, list(M.nodes)))
        rec.check('C11.rebuild.attrs', okn and hn == M.nodes, lambda: '%s rebuilt node attributes %r, expected %r' % (ctx, hn, M.nodes))
        rec.check('C11.rebuild.graph_attrs', dict(H.graph) == M.graph, lambda: '%s rebuilt graph attributes %r, expected %r' % (ctx, H.graph, M.graph))
        common.check_presence(rec, 'C11.rebuild', H, M, d.nodes, ctx=ctx)
        # the rebuilt graph is then used like any other graph (attributes set on it); nothing of that may
        # show up in graphs rebuilt later
        try:
            for n in list(H.nodes())[:2]:
                H.add_node(n, stray_marker=[1])
            dn.set_node_attributes(H, 7, name='stray_marker2')
            H.graph['stray_graph_marker'] = True
        except Exception:
            pass
    # ---- the directed argument
    for arg in (False, True):
        ok, H2 = safe(lambda: json_graph.node_link_graph(json.loads(text), directed=arg, attrs=attrs))
        if rec.check('C11.directed_arg', ok, lambda: '%s node_link_graph(directed=%r) raised %r' % (ctx, arg, H2)):
            rec.check('C11.directed_arg', H2.is_directed() == d.directed, lambda: '%s directed=%r overrode data[directed]=%r' % (ctx, arg, d.directed))
        nod = json.loads(text)
        del nod['directed']
        if d.directed and not arg:
            # re-reading arcs as undirected pairs may legitimately be rejected by the ordering rule
            # (two directions of a pair in non-chronological order): outside what the statement says
            rec.note('directed data re-read as undirected: not checked')
            continue
        ok, H3 = safe(lambda: json_graph.node_link_graph(nod, directed=arg, attrs=attrs))
        if rec.check('C11.directed_arg', ok, lambda: '%s node_link_graph(data without key, directed=%r) raised %r' % (ctx, arg, H3)):
            want = dn.DynDiGraph if arg else dn.DynGraph
            rec.check('C11.directed_arg', type(H3) is want, lambda: '%s data without key, directed=%r gave %r' % (ctx, arg, type(H3)))
    from ..observe import observe, diff
    ok, after = safe(observe, G, d.nodes, M.probes())
    rec.check('C11.source_unchanged', ok and before_obs is not None and after == before_obs,
              lambda: '%s node_link_data / node_link_graph changed the source graph in %r' % (ctx, diff(before_obs, after) if ok and before_obs else after))
    for c in d.classes:
        rec.classify(c)
    used = {x for k in M.orient for x in M.orient[k]}
    isolated_attr = any(n not in used and M.nodes[n] for n in M.nodes)
    multi = any(len(M.runs(k)) >= 2 for k in M.orient)
    if isolated_attr:
        rec.classify('isolated attributed node')
    return isolated_attr and multi and (not d.directed or 'reciprocal' in d.classes)
