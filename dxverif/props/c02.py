"""C02 - every snapshot and flattened query projects the one presence relation."""
from hypothesis import strategies as st

from .. import gen
from ..drive import Driver
from . import common

ID = 'C02'
RULE = ('Reachable states of both classes and both modes (histories of 1-10 calls with isolated attributed nodes, '
        'self-loops, reciprocal arcs); every probe instant (range-2..range+2 plus far values) and t=None; nbunch = two '
        'drawn lists over nodes + 2 unknown ids, single nodes, None. Every listed entry point (method, _iter and dn.* '
        'forms: ~55 sub-oracles per instant) is compared with what networkx answers on the static graph of the model '
        '(all nodes + interactions present at t). non-trivial = >= 2 pairs with different timelines, some probe inhabited by '
        'some but not all pairs, and one of: reciprocal arcs, a self-loop, an isolated node, an nbunch mixing known and '
        'unknown nodes.')
ASSUMPTIONS = ['e > t', 'degree of an undirected node with a self-loop: networkx value (loop twice) or docstring value (loop once) accepted',
               'dn.non_neighbors on directed graphs: non-successors (networkx) or nodes that are neither predecessor nor successor accepted',
               'accumulative presence as stated in C08']
TECHNIQUE = 'differential PBT: every query of every generated state vs networkx on the static graph of the reference model'
BUDGET = {'quick': {'cases': 9000, 'seconds': 50}, 'thorough': {'cases': 200000, 'seconds': 560}}
KINDS = ['add', 'add', 'add', 'add', 'add_from', 'path', 'star', 'cycle', 'node', 'node', 'nodes_from', 'recip']

NB = st.lists(st.lists(st.integers(0, 7), min_size=0, max_size=4, unique=True), min_size=2, max_size=2)


def strategy(tier):
    return st.tuples(gen.tiered(tier, max_ops=10, rejects=False, kinds=KINDS, removal=(True, True, True, False), horizon=6, shifts=True), NB).map(
        lambda x: dict(x[0], nb=x[1]))


def run_case(case, rec):
    d = Driver(case)
    half = len(case['ops']) // 2
    for i, op in enumerate(case['ops']):
        r = d.step(op)
        if d.desync:
            rec.note('accumulative bulk desync (case dropped)')
            return False
        if r['actual'] != r['expected']:
            rec.note('outcome_mismatch(left to C01)')
            return False
        if i + 1 == half and len(case['ops']) % 2 == 1:
            # the same object answers the (light) battery in the middle of its history as well
            common.check_queries(rec, 'C02', d.G, d.M, d.nodes, ctx=case['cls'] + ' (mid-history)', light=True)
            rec.classify('queried mid-history too')
    G, M = d.G, d.M
    pool = d.nodes + common.UNKNOWN
    nbs = [[pool[i % len(pool)] for i in nb] for nb in case['nb']]
    nbs = [list(dict.fromkeys(nb)) for nb in nbs]
    common.check_queries(rec, 'C02', G, M, d.nodes, ctx=case['cls'], nbunches=nbs)
    for c in d.classes:
        rec.classify(c)
    rec.classify('mode:' + ('removal' if M.removal else 'accumulative'))
    tls = {k: tuple(map(tuple, M.runs(k))) for k in M.orient}
    differ = len(set(tls.values())) >= 2
    partial = any(0 < M.count(t) < len(M.orient) for t in M.probes())
    used = {x for k in M.orient for x in M.orient[k]}
    isolated = any(n not in used for n in M.nodes)
    mixed = any(any(n in M.nodes for n in nb) and any(n not in M.nodes for n in nb) for nb in nbs)
    special = ('reciprocal' in d.classes) or ('selfloop' in d.classes) or isolated or mixed
    for lab, v in (('isolated node', isolated), ('nbunch mixes known and unknown', mixed)):
        if v:
            rec.classify(lab)
    return differ and partial and special
