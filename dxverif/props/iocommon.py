"""Helpers shared by the file-format properties (C09, C10, C18)."""
import bz2
import gzip
import io
import os
import shutil
import tempfile

from hypothesis import strategies as st

DELIMS = [' ', ' ', ' ', '\t', '\t', ',', ',', ';', '|', '::', '{}', '}}', '%s', '\\t']     # incl. format-string and escape look-alikes
ENCODINGS = ['utf-8', 'utf-8', 'utf-8', 'latin-1', 'ascii', 'utf-8-sig']
TARGETS = ['plain', 'plain', 'gz', 'bz2', 'gzip', 'fileobj', 'bytesio']

IO_PARAMS = st.fixed_dictionaries({'delim': st.sampled_from(DELIMS), 'enc': st.sampled_from(ENCODINGS),
                                   'target': st.sampled_from(TARGETS)})


_PROC_DIR = {}


class Scratch:
    """A private temporary directory (outside /repo and /verif).  One directory per process, created on
    first use and removed at exit, with FIXED file names: consecutive cases overwrite the same paths, so
    anything the library remembers about a path (size, mtime, cached contents) is exercised."""

    def __enter__(self):
        pid = os.getpid()
        if pid not in _PROC_DIR:
            import atexit
            d = tempfile.mkdtemp(prefix='dxverif_')
            _PROC_DIR.clear()
            _PROC_DIR[pid] = d
            atexit.register(shutil.rmtree, d, True)
        self.dir = _PROC_DIR[pid]
        return self

    def __exit__(self, *a):
        # files are overwritten by the next case; the directory goes away with the process
        # (multiprocessing workers skip atexit handlers, so the runner sweeps leftovers as well)
        pass

    def path(self, name):
        return os.path.join(self.dir, name)


def sweep():
    """Remove the per-process scratch directory (called by the runner at the end of a shard)."""
    for d in list(_PROC_DIR.values()):
        shutil.rmtree(d, ignore_errors=True)
    _PROC_DIR.clear()


def spaced_labels(nodes, delim, line_boundaries=True):
    """With a delimiter that is not a blank, a label may contain a blank: 'zz' -> 'z z' (and 'n1' -> 'n 1')."""
    if delim in (None, ' '):
        return nodes
    m = {'zz': 'z z', 'n1': 'n 1'}
    if line_boundaries and delim not in ('\t',):
        # ... and characters that str.splitlines() / stream readers treat as line boundaries but a binary file does not:
        # form feed, group separator, carriage return, NEL (all encodable in latin-1; the last one is not ascii)
        m.update({'k9': 'k\x0c9', 'Q': 'Q\x1dq', 'A': 'A\ra', 'ß': 'ß\x85s'})
    return [m.get(n, n) if isinstance(n, str) else n for n in nodes]


def ascii_only(nodes):
    return all((not isinstance(n, str)) or n.isascii() for n in nodes)


def write_with(writer, G, scratch, target, **kw):
    """Run a dynetx writer against the requested kind of target; returns (raw_bytes, reopen) where
    reopen() gives something the matching reader accepts."""
    if target in ('plain', 'gz', 'bz2', 'gzip'):
        ext = {'plain': '.txt', 'gz': '.gz', 'bz2': '.bz2', 'gzip': '.gzip'}[target]
        p = scratch.path('g' + ext)
        writer(G, p, **kw)
        data = open(p, 'rb').read()
        if target in ('gz', 'gzip'):
            magic_ok = data[:2] == b'\x1f\x8b'
            raw = gzip.decompress(data)
        elif target == 'bz2':
            magic_ok = data[:3] == b'BZh'
            raw = bz2.decompress(data)
        else:
            magic_ok = True
            raw = data
        return raw, (lambda: p), magic_ok
    if target == 'fileobj':
        p = scratch.path('g.bin')
        with open(p, 'wb') as f:
            writer(G, f, **kw)
            closed = f.closed
        raw = open(p, 'rb').read()
        return raw, (lambda: open(p, 'rb')), not closed
    buf = io.BytesIO()
    writer(G, buf, **kw)
    raw = buf.getvalue()
    return raw, (lambda: io.BytesIO(raw)), not buf.closed


def decode_rows(raw, enc, delim):
    """(ok, rows) - every line newline-terminated, decodable, split on the delimiter."""
    try:
        text = raw.decode(enc)
    except UnicodeDecodeError:
        return False, None
    if text and not text.endswith('\n'):
        return False, None
    lines = text.split('\n')[:-1] if text else []
    return True, [ln.split(delim) for ln in lines]


def nodetype_for(nodes, variant=0):
    """int for integer universes; None or str (alternating with `variant`) for string universes."""
    if all(type(n) is int for n in nodes):
        return int
    return str if variant % 2 else None
