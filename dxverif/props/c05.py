"""C05 - the interaction stream is a chronological, faithful event log of presence."""
from .. import gen
from ..drive import Driver, ADD_OPS
from . import common

ID = 'C05'
RULE = ('Histories as C01 on removal-enabled graphs of both classes. After every call the stream (method and dn.*) is '
        "checked: chronological, no repeated (pair, op, t) with undirected pairs normalised, '+' events == run starts "
        "of the model, every '-' sound (present at t-1, absent at t), every run of >= 2 instants closed at end+1, and "
        'the replay rule of the statement reconstructs the model presence. non-trivial = some pair has >= 2 runs, some '
        'run was produced by merging, and two pairs have events at a common or adjacent instant.')
ASSUMPTIONS = ['e > t']
TECHNIQUE = 'model-based PBT: stream invariants and replay round trip (stream -> presence) vs the reference model'
BUDGET = {'quick': {'cases': 24000, 'seconds': 40}, 'thorough': {'cases': 400000, 'seconds': 540}}


def strategy(tier):
    return gen.tiered(tier, max_ops=14, shifts=True)


def exhaustive(tier):
    import itertools
    long_ = gen.very_long_cases()       # every tier: fourteen fixed histories with a pair of 65-300 runs
    if tier != 'thorough':
        return {'cases': long_, 'bound': '14 fixed very long histories (one pair with 65-300 runs)'}
    return {'cases': itertools.chain(long_, common.single_pair_histories()), 'bound': common.SINGLE_PAIR_BOUND + '; 14 fixed very long histories (one pair with 65-300 runs)'}


def run_case(case, rec):
    d = Driver(case)
    sched = common.observe_schedule(case)
    rec.classify('queries after: ' + sched)
    for i, op in enumerate(case['ops']):
        r = d.step(op)
        if r['actual'] != r['expected']:
            rec.note('outcome_mismatch(left to C01)')
            break
        if op[0] in ADD_OPS and common.due(sched, i, len(case['ops']) - 1):
            common.check_stream(rec, 'C05', d.G, d.M, ctx='after op %d %r' % (i, op),
                                unclosed_known=common.primary_unclosed(d.M))
    for c in d.classes:
        rec.classify(c)
    multi = any(len(d.M.runs(k)) >= 2 for k in d.M.orient)
    merged = bool(d.classes & {'adjacent', 'overlap_extend', 'contained', 'duplicate'})
    return multi and merged and 'shared_instant' in d.classes
