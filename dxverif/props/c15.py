"""C15 - temporal_dag is acyclic, sound and window-respecting."""
import networkx as nx
from hypothesis import strategies as st

from ..drive import Driver, new_graph
from . import pathcommon as pc
from .common import safe

ID = 'C15'
RULE = ('Graphs as C12 x 4 drawn queries (root in the graph, v in {None, node, u}, valid windows incl. non-id bounds) plus '
        '3 invalid windows per graph (start below the first id, end above the last id, start > end) and the empty graph. '
        'Oracles on (DAG, sources, targets): acyclic; every edge X@s -> Y@t decodes to an interaction X-Y (X->Y when '
        'directed) present at t with start <= t <= end and s < t, or s == t when X@s is a source occurrence of u; sources '
        '== occurrences of u at the window ids where u has a neighbour; targets == the DAG nodes with a predecessor that '
        'are occurrences of v (of any node when v is None); sources and targets are DAG nodes, without duplicates; '
        'invalid windows raise ValueError; a graph without snapshots gives an empty DAG and empty lists; every answer belongs to its caller '
        '(it is written into / emptied after the checks, and the same question asked again must give the first answer). '
        'non-trivial = the DAG has >= 3 edges over >= 2 distinct instants.')
ASSUMPTIONS = ['e > t', "node ids are ints or '_'-free strings"]
TECHNIQUE = 'PBT with a validity predicate over the returned DAG, sources and targets; exhaustive small universes (thorough)'
BUDGET = {'quick': {'cases': 10000, 'seconds': 50}, 'thorough': {'cases': 400000, 'seconds': 560}}
QUERIES = st.lists(pc.QUERY, min_size=4, max_size=4)
TRIG = 'root_selfloop_in_window'


def strategy(tier):
    return st.tuples(pc.graph_strategy(tier=tier), QUERIES).map(lambda x: dict(x[0], q=[list(q) for q in x[1]]))


def exhaustive(tier):
    if tier != 'thorough':
        return None
    return {'cases': pc.small_universe_cases(directed_step=16, loops=True),
            'bound': 'every undirected presence relation on 3 nodes x instants {0,1,2} incl. two self-loop pairs (2^15 - 1) and every 16th '
                     'directed one by bit index, each with all roots, v in {None, each node}, windows [first,last] and [first,first+1]'}


def decode(name, ntype):
    """'X_t' -> (X, t) or None."""
    if not isinstance(name, str) or '_' not in name:
        return None
    a, b = name.rsplit('_', 1)
    try:
        return ntype(a), int(b)
    except Exception:
        return None


def run_case(case, rec):
    import dynetx.algorithms as al
    d = Driver(case)
    half = len(case['ops']) // 2
    for i, op in enumerate(case['ops']):
        r = d.step(op)
        if r['actual'] != r['expected']:
            rec.note('outcome_mismatch(left to C01)')
            return False
        if i + 1 == half and len(case['ops']) & 1 and d.M.ids() and case.get('q'):
            # ask the same object once in the middle of its history (the answers are checked at the end
            # against the final state: nothing may be remembered from this call)
            u, v, start, end = pc.resolve(d.M, d.nodes, case['q'][-1])
            safe(lambda: al.temporal_dag(d.G, u, v, start, end))
            rec.classify('queried mid-history too')
    G, M = d.G, d.M
    ids = M.ids()
    # ---- empty graph
    E = new_graph(case['cls'])
    ok, out = safe(al.temporal_dag, E, d.nodes[0])
    rec.check('C15.empty', ok and isinstance(out, tuple) and len(out) == 5 and out[0].number_of_nodes() == 0 and
              out[0].number_of_edges() == 0 and list(out[1]) == [] and list(out[2]) == [],
              lambda: 'temporal_dag on a graph without snapshots returned %r' % (out,))
    # the caller owns what it got: writing into it must not show in any later answer (checked by the next case)
    safe(lambda: (out[0].add_edge('x_0', 'y_1'), out[1].append('x_0'), out[2].append('y_1')))
    if not ids:
        return False
    O = pc.PathOracle(M)
    nontrivial = False
    lo, hi = ids[0], ids[-1]
    u0 = list(M.nodes)[0]
    for (s, e, why) in ((lo - 1 - len(ids) % 3, hi, 'start below first id'), (lo, hi + 1 + len(ids) % 2, 'end above last id'),
                        (hi, lo, 'start > end') if hi > lo else (hi + 1, hi + 1, 'start above last id')):
        ok, out = safe(al.temporal_dag, G, u0, None, s, e)
        rec.check('C15.invalid_window', (not ok) and type(out) is ValueError,
                  lambda: 'temporal_dag(start=%r, end=%r) [%s] on ids %r gave %r' % (s, e, why, ids, out))
    if case.get('all_q'):
        queries = [(u, v, s_, e_) for u in M.nodes for v in [None] + list(M.nodes)
                   for (s_, e_) in sorted({(None, None), (ids[0], min(ids[0] + 1, ids[-1]))}, key=repr)]
    else:
        queries = [pc.resolve(M, d.nodes, q) for q in case['q']]
    for (u, v, start, end) in queries:
        ctx = '%s temporal_dag(u=%r, v=%r, start=%r, end=%r)' % (case['cls'], u, v, start, end)
        ok, out = safe(al.temporal_dag, G, u, v, start, end)
        if not rec.check('C15.call', ok, lambda: '%s raised %r' % (ctx, out)):
            continue
        if not rec.check('C15.shape', isinstance(out, tuple) and len(out) == 5 and isinstance(out[0], nx.DiGraph),
                         lambda: '%s returned %r' % (ctx, out)):
            continue
        DAG, sources, targets = out[0], list(out[1]), list(out[2])
        ntype = type(u)
        lo_w, hi_w, wids = O.window(start, end)
        loop = O.root_selfloop_in_window(u, start, end)
        rec.check('C15.acyclic', nx.is_directed_acyclic_graph(DAG),
                  lambda: '%s: cycle %r' % (ctx, nx.find_cycle(DAG)), known=TRIG if loop else None)
        exp_sources = ['%s_%s' % (u, t) for t in wids if O.nbrs(u, t)]
        rec.check('C15.sources', len(sources) == len(set(sources)) and set(sources) == set(exp_sources),
                  lambda: '%s: sources %r, expected %r' % (ctx, sources, exp_sources))
        rec.check('C15.members', all(x in DAG for x in sources) and all(x in DAG for x in targets),
                  lambda: '%s: sources/targets not in the DAG: %r' % (ctx, [x for x in sources + targets if x not in DAG]))
        bad = None
        for a, b in DAG.edges():
            da, db = decode(a, ntype), decode(b, ntype)
            if da is None or db is None:
                bad = (a, b, 'not a time-stamped occurrence')
                break
            (X, s), (Y, t) = da, db
            if not (lo_w <= t <= hi_w):
                bad = (a, b, 'time outside [%r, %r]' % (lo_w, hi_w))
            elif not O.has_hop(X, Y, t):
                bad = (a, b, 'no interaction %r-%r at %r' % (X, Y, t))
            elif not (s < t or (s == t and a in exp_sources)):
                bad = (a, b, 'source time %r not before %r' % (s, t))
            if bad:
                break
        rec.check('C15.edge_sound', bad is None, lambda: '%s: edge %r -> %r: %s' % (ctx, bad[0], bad[1], bad[2]))
        # targets
        reached = {n for n in DAG.nodes() if DAG.in_degree(n) > 0}
        if v is None:
            exp_t = reached
        else:
            exp_t = {n for n in reached if decode(n, ntype) is not None and decode(n, ntype)[0] == v}
        rec.check('C15.targets', len(targets) == len(set(targets)) and set(targets) == exp_t,
                  lambda: '%s: targets %r, reached occurrences%s %r' % (ctx, targets, '' if v is None else ' of v', sorted(exp_t)))
        # no stray nodes: everything in the DAG is an occurrence (the bare root may stay as an isolated node)
        stray = [n for n in DAG.nodes() if decode(n, ntype) is None and not (n == u and DAG.degree(n) == 0)]
        rec.check('C15.nodes', not stray, lambda: '%s: DAG nodes that are not occurrences: %r' % (ctx, stray))
        times = {decode(b, ntype)[1] for a, b in DAG.edges() if decode(b, ntype)}
        if DAG.number_of_edges() >= 3 and len(times) >= 2:
            nontrivial = True
        # ... likewise for a real answer: empty what was returned, ask again, compare with what was returned first
        snap = (set(DAG.edges()), set(DAG.nodes()), sorted(sources), sorted(targets))
        safe(lambda: (DAG.clear(), out[1].clear() if isinstance(out[1], list) else None, out[2].clear() if isinstance(out[2], list) else None))
        ok2, out2 = safe(al.temporal_dag, G, u, v, start, end)
        rec.check('C15.fresh_answer', ok2 and (set(out2[0].edges()), set(out2[0].nodes()), sorted(out2[1]), sorted(out2[2])) == snap,
                  lambda: '%s asked again after the first answer was emptied by its caller: %r, first answer had edges %r' % (
                      ctx, (sorted(out2[0].edges()), list(out2[1]), list(out2[2])) if ok2 else out2, sorted(snap[0])))
        rec.classify('DAG edges: %s' % ('0' if DAG.number_of_edges() == 0 else '1-2' if DAG.number_of_edges() < 3 else '3-9' if DAG.number_of_edges() < 10 else '10+'))
        if loop:
            rec.classify('root self-loop in window')
    for c in d.classes:
        rec.classify(c)
    return nontrivial
