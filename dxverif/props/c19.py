"""C19 - untimed networkx mutators are blocked; frozen graphs are immutable."""
import inspect

import networkx as nx
from hypothesis import strategies as st

from .. import gen
from ..drive import Driver, ADD_OPS, call_real, exc_kind
from ..observe import observe, diff
from . import common
from .common import safe

ID = 'C19'
RULE = ('Programs: histories of 3-12 steps mixing legal adds with calls to every public callable that introspection finds on '
        'networkx.Graph / networkx.DiGraph of the installed networkx (37 / 42 names, arguments synthesised from parameter '
        'names; a call rejected for its signature is counted as not exercised) and the module-level dn.set/get_edge_attributes. '
        'Listed blocked mutators/views must raise NetworkXNotImplemented and leave interactions, timelines, snapshot ids, '
        'counts and stream untouched; after ANY inherited call the graph must be well formed against its own presence scan '
        '(canonical timeline on every adjacency entry, snapshot index and stream in step with presence); then freeze(G): '
        'is_frozen, and every mutator (add_node(s_from), remove_*, add_edge(s_from), add_weighted_edges_from, clear, '
        'clear_edges, update, add_interaction, add_interactions_from, add_path/star/cycle, dn.add_*) must raise and leave '
        'observe(G) unchanged. non-trivial = an accepted add before and after a blocked call and >= 3 different inherited '
        'callables exercised.')
ASSUMPTIONS = ['e > t', 'dunder methods and properties are not "public callables"; mutating a dict obtained from a read accessor is not a call']
TECHNIQUE = 'program-level PBT: introspected inherited callables with synthesised arguments inside histories; invariant after every call; frozen-graph mutator sweep'
BUDGET = {'quick': {'cases': 10000, 'seconds': 45}, 'thorough': {'cases': 400000, 'seconds': 540}}

BLOCKED = ['add_edge', 'add_edges_from', 'add_weighted_edges_from', 'update', 'remove_edge', 'remove_edges_from', 'remove_node',
           'remove_nodes_from', 'edges_iter', 'in_edges', 'out_edges', 'in_edges_iter', 'out_edges_iter',
           'dn.set_edge_attributes', 'dn.get_edge_attributes']
FROZEN_MUTATORS = ['add_node', 'add_nodes_from', 'remove_node', 'remove_nodes_from', 'add_edge', 'add_edges_from',
                   'add_weighted_edges_from', 'remove_edge', 'remove_edges_from', 'clear', 'clear_edges', 'update_nodes', 'update_edges',
                   'add_interaction', 'add_interactions_from', 'add_path', 'add_star', 'add_cycle', 'dn.add_path', 'dn.add_star', 'dn.add_cycle']
INTERACTION_FAMILY = {'add_interaction', 'add_interactions_from', 'add_path', 'add_star', 'add_cycle', 'dn.add_path', 'dn.add_star', 'dn.add_cycle'}
NAMES_G = sorted(n for n in dir(nx.Graph) if not n.startswith('_') and callable(getattr(nx.Graph, n, None)))
NAMES_D = sorted(n for n in dir(nx.DiGraph) if not n.startswith('_') and callable(getattr(nx.DiGraph, n, None)))
ALL_NAMES = sorted(set(NAMES_G) | set(NAMES_D) | {'edges_iter', 'in_edges', 'out_edges', 'in_edges_iter', 'out_edges_iter'})

STEP = st.one_of(
    st.tuples(st.just('inh'), st.sampled_from(ALL_NAMES), st.integers(0, 1000)),
    st.tuples(st.just('inh'), st.sampled_from(['clear', 'clear_edges', 'update', 'add_node', 'add_nodes_from', 'copy', 'subgraph']), st.integers(0, 1000)),
    st.tuples(st.just('blocked'), st.sampled_from(BLOCKED), st.integers(0, 1000)))


def strategy(tier):
    hist = gen.tiered(tier, max_ops=8, min_ops=4, kinds=['add', 'add', 'add', 'add_from', 'path', 'cycle', 'node'], attrs=False,
                       node_kinds=('int', 'str', 'mixed'))
    return st.tuples(hist, st.lists(st.tuples(st.integers(0, 6), STEP), min_size=3, max_size=8),
                     st.lists(st.sampled_from(FROZEN_MUTATORS), min_size=4, max_size=8, unique=True), st.integers(0, 1000)).map(
        lambda x: dict(x[0], steps=[[p, list(s)] for p, s in x[1]], frozen=x[2], fseed=x[3]))


SHRINK_KEYS = ['steps', 'ops', 'frozen']


def synth(name, fn, nodes, known, seed):
    """Arguments for an inherited callable from its parameter names.  Returns (args, kwargs)."""
    pick = lambda i: (known or nodes)[(seed + i) % len(known or nodes)]
    fresh = '__new%d__' % (seed % 3)
    node = pick(0) if seed % 4 else fresh
    pairs = [(pick(0), pick(1)), (pick(2), fresh)]
    try:
        sig = inspect.signature(fn)
    except (TypeError, ValueError):
        return (), {}
    args = []
    kwargs = {}
    for pname, p in sig.parameters.items():
        if p.kind in (p.VAR_POSITIONAL,):
            continue
        if p.kind == p.VAR_KEYWORD:
            if seed % 2:
                kwargs['w'] = 1
            continue
        if pname in ('u', 'v', 'n', 'node', 'u_of_edge', 'v_of_edge', 'node_for_adding'):
            val = pick(1) if pname in ('v', 'v_of_edge') else node
        elif pname in ('nbunch', 'nodes', 'nodes_for_adding'):
            if name == 'update' and seed % 3 == 0:
                continue
            val = [pick(0), fresh] if seed % 2 else [pick(0), pick(1)]
        elif pname in ('ebunch', 'ebunch_to_add', 'edges'):
            if name == 'update' and seed % 3 == 1:
                continue
            val = [(a, b, 1.5) for a, b in pairs] if 'weighted' in name else pairs
        elif pname == 't':
            if p.default is not inspect.Parameter.empty and seed % 2:
                continue
            val = seed % 7
        elif pname == 'e':
            continue
        elif p.default is not inspect.Parameter.empty:
            if seed % 5 == 0 and pname in ('data', 'as_view', 'copy', 'reciprocal'):
                val = True
            else:
                continue
        else:
            val = [None, 0, 'x', True][seed % 4]
        if p.kind == p.KEYWORD_ONLY:
            kwargs[pname] = val
        else:
            args.append(val)
    return tuple(args), kwargs


def observe_edges_only(o):
    return {k: v for k, v in o.items() if k not in ('nodes', 'node_order')}


def wellformed(rec, G, ctx):
    ok, HM = safe(common.scan_model, G)
    if not rec.check('C19.invariant.scan', ok, lambda: '%s: scanning the graph raised %r' % (ctx, HM)):
        return
    common.check_timelines(rec, 'C19.invariant.timelines', G, HM, ctx=ctx)
    common.check_snapshots(rec, 'C19.invariant.snapshots', G, HM, ctx=ctx, probes=HM._probes)
    common.check_stream(rec, 'C19.invariant.stream', G, HM, ctx=ctx, closure=False)
    # every adjacency entry carries a timeline
    ok, bad = safe(lambda: [(u, v) for u, nb in G.adjacency() for v, dd in nb.items() if not (isinstance(dd, dict) and isinstance(dd.get('t'), list) and dd['t'])])
    rec.check('C19.invariant.adjacency', ok and not bad, lambda: '%s: adjacency entries without a timeline: %r' % (ctx, bad))


def do_blocked(name, G, nodes, known, seed):
    import dynetx as dn
    pick = lambda i: (known or nodes)[(seed + i) % len(known or nodes)]
    a, b = pick(0), pick(1)
    if name == 'dn.set_edge_attributes':
        return safe(dn.set_edge_attributes, {(a, b): 1}, 'w')
    if name == 'dn.get_edge_attributes':
        return safe(dn.get_edge_attributes, G, 't')
    if not hasattr(G, name):
        return None
    f = getattr(G, name)
    v3 = seed % 3
    if name == 'add_edge':
        return (safe(f, a, b), safe(f, a, '__new__', w=1), safe(f, u_of_edge=b, v_of_edge=a) if False else safe(f, b, a, t=3))[v3]
    if name == 'add_edges_from':
        return (safe(f, [(a, b), (b, '__new__')]), safe(f, ((x, y) for x, y in [(a, b)])), safe(f, [(a, b, {'t': [[0, 1]]})], w=2))[v3]
    if name == 'add_weighted_edges_from':
        return (safe(f, [(a, b, 0.5)]), safe(f, [(a, '__new__', 1)], weight='w'), safe(f, []))[v3]
    if name == 'update':
        g = nx.DiGraph([(a, '__new__')]) if G.is_directed() else nx.Graph([(a, '__new__')])
        return (safe(f, edges=[(a, b)]), safe(f, [(a, '__new__')], [a, '__other__']), safe(f, g))[v3]
    if name == 'remove_edge':
        return (safe(f, a, b), safe(f, a, '__absent__'), safe(f, b, a))[v3]
    if name == 'remove_edges_from':
        return (safe(f, [(a, b)]), safe(f, []), safe(f, [(a, b, 'k')]))[v3]
    if name == 'remove_node':
        return (safe(f, a), safe(f, '__absent__'), safe(f, b))[v3]
    if name == 'remove_nodes_from':
        return (safe(f, [a, b]), safe(f, []), safe(f, iter([a])))[v3]
    if name in ('edges_iter', 'in_edges', 'out_edges', 'in_edges_iter', 'out_edges_iter'):
        return safe(f) if seed % 2 else safe(f, [a])
    raise AssertionError(name)


def run_case(case, rec):
    import dynetx as dn
    d = Driver(case)
    G = d.G
    nodes = d.nodes
    steps = {}
    for pos, s in case.get('steps', []):
        steps.setdefault(pos, []).append(s)
    exercised = set()
    accepted_before = accepted_after = False
    blocked_seen = False

    def run_steps(pos):
        nonlocal blocked_seen
        for kind, name, seed in steps.get(pos, []):
            known = list(G.nodes())
            if kind == 'blocked':
                ok0, before = safe(observe, G, nodes)
                out = do_blocked(name, G, nodes, known, seed)
                if out is None:
                    continue
                ok, val = out
                ctx = 'blocked call %s (seed %d)' % (name, seed)
                rec.check('C19.blocked.raises', (not ok) and isinstance(val, nx.NetworkXNotImplemented),
                          lambda: '%s returned/raised %r instead of NetworkXNotImplemented' % (ctx, val))
                ok1, after = safe(observe, G, nodes)
                if ok0 and ok1:
                    b2, a2 = (observe_edges_only(before), observe_edges_only(after)) if name == 'update' else (before, after)
                    rec.check('C19.blocked.untouched', b2 == a2, lambda: '%s changed %r' % (ctx, diff(b2, a2)))
                else:
                    rec.check('C19.blocked.untouched', False, '%s: observe raised %r / %r' % (ctx, before, after))
                rec.classify('blocked:' + name)
                rec.classify('blocked form %d' % (seed % 3))
                blocked_seen = True
                wellformed(rec, G, 'after ' + ctx)
            else:
                if not hasattr(G, name):
                    continue
                fn = getattr(G, name)
                args, kwargs = synth(name, fn, nodes, known, seed)
                ok, val = safe(lambda: fn(*args, **kwargs))
                if ok and hasattr(val, '__next__'):
                    ok, val = safe(lambda: list(val))
                ctx = 'inherited call %s%r %r' % (name, args, kwargs)
                if (not ok) and isinstance(val, TypeError) and 'argument' in str(val):
                    rec.classify('not exercised (signature): ' + name)
                else:
                    rec.classify('exercised: ' + name)
                    exercised.add(name)
                # one immediate check in three is left out: the graph is then looked at only later (after more
                # calls, or at the end of the program), which is how stale caches behind a call show up
                if seed % 3:
                    wellformed(rec, G, 'after ' + ctx + (' -> ok' if ok else ' -> %s' % type(val).__name__))
                else:
                    rec.classify('deferred check after ' + name)
                if name in BLOCKED and name != 'update':
                    rec.check('C19.blocked.raises', (not ok) and isinstance(val, nx.NetworkXNotImplemented),
                              lambda: '%s returned/raised %r instead of NetworkXNotImplemented' % (ctx, val))

    run_steps(0)
    for i, op in enumerate(case['ops']):
        ex = call_real(G, nodes, op)
        kind = exc_kind(ex)
        if op[0] in ADD_OPS:
            rec.check('C19.add_outcome', kind in ('ok', 'ValueError'), lambda: 'op %d %r raised %r' % (i, op, ex))
            if kind == 'ok':
                if blocked_seen:
                    accepted_after = True
                else:
                    accepted_before = True
        run_steps(i + 1)
    wellformed(rec, G, 'end of program')
    # ---------------------------------------------------------------- frozen graph
    ok, _ = safe(dn.freeze, G)
    rec.check('C19.frozen.is_frozen', ok and dn.is_frozen(G) is True, lambda: 'freeze/is_frozen: %r / %r' % (_, dn.is_frozen(G)))
    known = list(G.nodes())
    fs = case.get('fseed', 0)
    pick = lambda i: (known or nodes)[(fs + i) % len(known or nodes)]
    ok, ids_now = safe(G.temporal_snapshots_ids)
    big = (max(ids_now) if (ok and ids_now) else 0) + 3 + fs % 5
    for name in case.get('frozen', []):
        ok0, before = safe(observe, G, nodes)
        a, b = pick(0), pick(1)
        calls = {
            'add_node': lambda: G.add_node('__z__'), 'add_nodes_from': lambda: G.add_nodes_from(['__z__', a]),
            'remove_node': lambda: G.remove_node(a), 'remove_nodes_from': lambda: G.remove_nodes_from([a]),
            'add_edge': lambda: G.add_edge(a, b), 'add_edges_from': lambda: G.add_edges_from([(a, b)]),
            'add_weighted_edges_from': lambda: G.add_weighted_edges_from([(a, b, 1.0)]),
            'remove_edge': lambda: G.remove_edge(a, b), 'remove_edges_from': lambda: G.remove_edges_from([(a, b)]),
            'clear': lambda: G.clear(), 'clear_edges': lambda: G.clear_edges(),
            'update_nodes': lambda: G.update(nodes=['__z__']), 'update_edges': lambda: G.update(edges=[(a, b)]),
            'add_interaction': lambda: G.add_interaction(a, '__z__', big), 'add_interactions_from': lambda: G.add_interactions_from([(a, b)], t=big),
            'add_path': lambda: G.add_path([a, '__z__'], big), 'add_star': lambda: G.add_star([a, '__z__', b], big),
            'add_cycle': lambda: G.add_cycle([a, '__z__', b], big),
            'dn.add_path': lambda: dn.add_path(G, [a, '__z__'], big), 'dn.add_star': lambda: dn.add_star(G, [a, '__z__', b], big),
            'dn.add_cycle': lambda: dn.add_cycle(G, [a, '__z__', b], big),
        }
        if name in ('add_star', 'add_cycle') and not hasattr(G, name):
            continue
        ok, val = safe(calls[name])
        ok1, after = safe(observe, G, nodes)
        fam = name in INTERACTION_FAMILY
        sub = 'C19.frozen.add_interaction_family' if fam else 'C19.frozen.mutator'
        good = (not ok) and ok0 and ok1 and before == after
        rec.check(sub, good, lambda: 'on a frozen graph %s %s and changed %r' % (
            name, 'returned normally' if ok else 'raised %r' % (val,), diff(before, after) if (ok0 and ok1) else (before, after)),
            known='interaction_family_on_frozen_graph' if fam else None)
        rec.classify('frozen:' + name)
    rec.classify(case['cls'])
    return accepted_before and accepted_after and len(exercised) >= 3
