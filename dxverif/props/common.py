"""Oracles shared between property modules."""
import itertools


def R(x):
    """repr() that survives ints beyond the interpreter's int -> str limit (histories played at +-10**4400)."""
    try:
        return repr(x)
    except ValueError:
        return '<int of %d bits>' % x.bit_length() if isinstance(x, int) else '<unprintable>'


def safe(fn, *a, **k):
    """(True, value) or (False, exception) - the library's exceptions are data, not harness errors."""
    try:
        return True, fn(*a, **k)
    except Exception as ex:  # noqa: BLE001 - the answer of the code under test
        return False, ex


def check_presence(rec, prefix, G, M, nodes, ctx='', probes=None):
    """has_interaction over all ordered pairs of the universe x probe instants vs the model."""
    probes = M.probes() if probes is None else probes
    bad = None
    n = 0
    for u in nodes:
        for v in nodes:
            exp_any = M.present(u, v)
            ok, got = safe(G.has_interaction, u, v)
            n += 1
            if not ok or bool(got) != exp_any or not isinstance(got, bool):
                rec.check(prefix + '.has@none', False,
                          '%s: has_interaction(%r, %r) = %r, model says %r' % (ctx, u, v, got, exp_any))
                return False
            for t in probes:
                exp = M.present(u, v, t)
                ok, got = safe(G.has_interaction, u, v, t)
                if not ok or bool(got) != exp:
                    bad = (u, v, t, got, exp)
                    break
            if bad:
                break
        if bad:
            break
    rec.sub[prefix + '.has@none'] = rec.sub.get(prefix + '.has@none', 0) + n
    rec.sub[prefix + '.has@t'] = rec.sub.get(prefix + '.has@t', 0) + n * len(probes) - 1
    return rec.check(prefix + '.has@t', bad is None,
                     lambda: '%s: has_interaction(%r, %r, %r) = %r, model says %r; model runs %r' % (
                         ctx, bad[0], bad[1], bad[2], bad[3], bad[4], M.runs(M.key(bad[0], bad[1]))))


SINGLE_PAIR_BOUND = ('all histories of 1..3 add_interaction calls on one pair with t in 0..5 and e in {None} u t+1..6 '
                     '(27 spans), for DynDiGraph, DynGraph with fixed endpoint order and DynGraph with alternating '
                     'endpoint order: 3 x (27 + 27^2 + 27^3) = 61317 histories')


def single_pair_spans():
    out = []
    for t in range(6):
        out.append((t, None))
        for e in range(t + 1, 7):
            out.append((t, e))
    return out


def single_pair_histories():
    spans = single_pair_spans()
    for variant in ('DynDiGraph', 'DynGraph', 'DynGraph-flip'):
        cls = variant.split('-')[0]
        for n in (1, 2, 3):
            for hist in itertools.product(spans, repeat=n):
                ops = []
                for i, (t, e) in enumerate(hist):
                    if variant.endswith('flip') and i % 2 == 1:
                        ops.append(['add', 1, 0, t, e])
                    else:
                        ops.append(['add', 0, 1, t, e])
                yield {'cls': cls, 'removal': True, 'nodes': [1, 2], 'ops': ops}


# ======================================================================= C03: canonical timelines
def _timeline_ok(tl):
    """(shape_ok, order_ok, instants) for a timeline value."""
    if not isinstance(tl, list) or not tl:
        return False, False, set()
    inst = set()
    shape = True
    for iv in tl:
        if not (isinstance(iv, (list, tuple)) and len(iv) == 2 and all(type(x) is int for x in iv) and iv[0] <= iv[1]):
            shape = False
            break
        inst |= set(range(iv[0], iv[1] + 1))
    order = shape and all(tl[i][1] + 1 < tl[i + 1][0] for i in range(len(tl) - 1))
    return shape, order, inst


def check_timelines(rec, prefix, G, M, ctx='', coverage=True):
    """C03 on graph G whose presence relation is described by model M."""
    directed = G.is_directed()
    views = [('interactions', G.interactions)]
    if directed:
        views += [('in_interactions', G.in_interactions), ('out_interactions', G.out_interactions)]
    allok = True
    for name, fn in views:
        ok, items = safe(fn)
        if not rec.check(prefix + '.call', ok, lambda: '%s %s() raised %r' % (ctx, name, items)):
            return False
        seen = {}
        for it in items:
            good = isinstance(it, tuple) and len(it) == 3 and isinstance(it[2], dict) and 't' in it[2]
            if not rec.check(prefix + '.shape', good, lambda: '%s %s(): item %r' % (ctx, name, it)):
                allok = False
                continue
            u, v, d = it
            shape, order, inst = _timeline_ok(d['t'])
            allok &= rec.check(prefix + '.shape', shape, lambda: '%s %s(): timeline of (%r, %r) = %r' % (ctx, name, u, v, d['t']))
            if not shape:
                continue
            allok &= rec.check(prefix + '.order', order, lambda: '%s %s(): timeline of (%r, %r) = %r is not strictly increasing with gaps' % (ctx, name, u, v, d['t']))
            key = M.key(u, v)
            exp = set(M.pres.get(key, ())) if M.removal else None
            if exp is not None:
                allok &= rec.check(prefix + '.union', inst == exp,
                                   lambda: '%s %s(): timeline of (%r, %r) = %r, presence is %r' % (ctx, name, u, v, d['t'], runs_repr(exp)))
            seen[key] = d['t']
        if coverage and (name != 'interactions' or not directed):
            missing = [k for k in M.orient if k not in seen]
            allok &= rec.check(prefix + '.union', not missing,
                               lambda: '%s %s(): no timeline for pair(s) %r' % (ctx, name, missing[:3]))
    if not directed:
        for k, (u, v) in M.orient.items():
            ok1, a = safe(G.interactions, [u])
            ok2, b = safe(G.interactions, [v])
            if not (ok1 and ok2):
                rec.check(prefix + '.call', False, '%s interactions([n]) raised %r / %r' % (ctx, a, b))
                allok = False
                continue
            ta = [d.get('t') if isinstance(d, dict) else d for x, y, d in a if M.key(x, y) == k]
            tb = [d.get('t') if isinstance(d, dict) else d for x, y, d in b if M.key(x, y) == k]
            allok &= rec.check(prefix + '.symmetric', len(ta) == 1 and ta == tb,
                               lambda: '%s pair %r: timeline via %r = %r, via %r = %r' % (ctx, (u, v), u, ta, v, tb))
    return allok


def runs_repr(s):
    from ..model import runs_of
    return runs_of(s)


# ======================================================================= C04: snapshot index
def check_snapshots(rec, prefix, G, M, ctx='', probes=None):
    import dynetx as dn
    ok, ids = safe(G.temporal_snapshots_ids)
    exp_ids = M.ids()
    good = ok and isinstance(ids, list) and ids == exp_ids
    res = rec.check(prefix + '.ids', good, lambda: '%s temporal_snapshots_ids() = %r, inhabited instants are %r' % (ctx, ids, exp_ids))
    ok2, ids2 = safe(dn.temporal_snapshots_ids, G)
    res &= rec.check(prefix + '.ids', ok2 and ids2 == ids, lambda: '%s dn.temporal_snapshots_ids = %r vs method %r' % (ctx, ids2, ids))
    probes = M.probes() if probes is None else probes
    bad = None
    for t in probes:
        ok, c = safe(G.interactions_per_snapshots, t)
        if not ok or c != M.count(t):
            bad = (t, c, M.count(t))
            break
    rec.sub[prefix + '.count@t'] = rec.sub.get(prefix + '.count@t', 0) + len(probes) - 1
    res &= rec.check(prefix + '.count@t', bad is None,
                     lambda: '%s interactions_per_snapshots(%r) = %r, %r interactions are present' % ((ctx,) + bad))
    ok, cd = safe(G.interactions_per_snapshots)
    exp = {t: M.count(t) for t in exp_ids}
    res &= rec.check(prefix + '.counts', ok and isinstance(cd, dict) and cd == exp,
                     lambda: '%s interactions_per_snapshots() = %r, expected %r' % (ctx, cd, exp))
    ok, cd2 = safe(dn.interactions_per_snapshots, G)
    res &= rec.check(prefix + '.counts', ok and cd2 == cd, lambda: '%s dn.interactions_per_snapshots = %r vs %r' % (ctx, cd2, cd))
    if exp_ids:
        ok, avg = safe(G.avg_number_of_nodes)
        expa = sum(len(M.nodes_at(t)) for t in exp_ids) / len(exp_ids)
        res &= rec.check(prefix + '.avg_nodes', ok and isinstance(avg, (int, float)) and abs(avg - expa) <= 1e-9,
                         lambda: '%s avg_number_of_nodes() = %r, mean of |V_t| over ids is %r' % (ctx, avg, expa))
    return res


# ======================================================================= C05: stream
def replay_stream(events):
    """Replay rule of C05 for the events [(op, t)] of one pair (chronological)."""
    pres = set()
    cur = None
    orphan = False
    for op, t in sorted(events, key=lambda x: (x[1], 0 if x[0] == '-' else 1)):
        if op == '+':
            if cur is not None:
                pres.add(cur)
            cur = t
        else:
            if cur is None:
                orphan = True
            else:
                pres |= set(range(cur, t))
                cur = None
    if cur is not None:
        pres.add(cur)
    return pres, orphan


def check_stream(rec, prefix, G, M, ctx='', unclosed_known=None, closure=True):
    """C05 on graph G (removal mode) with presence model M.
    unclosed_known(key, run) -> True when the listed finding 'two_instant_run_from_two_points'
    applies to that run (a function of the history, never of the observed stream)."""
    import dynetx as dn
    TRIG = 'two_instant_run_from_two_points'
    ok, S = safe(lambda: list(G.stream_interactions()))
    if not rec.check(prefix + '.call', ok, lambda: '%s stream_interactions() raised %r' % (ctx, S)):
        return False
    ok2, S2 = safe(lambda: list(dn.stream_interactions(G)))
    res = rec.check(prefix + '.api', ok2 and S2 == S, lambda: '%s dn.stream_interactions differs: %r vs %r' % (ctx, S2, S))
    good = all(isinstance(x, tuple) and len(x) == 4 and x[2] in ('+', '-') for x in S)
    if not rec.check(prefix + '.shape', good, lambda: '%s stream items %r' % (ctx, S[:5])):
        return False
    res &= rec.check(prefix + '.sorted', all(S[i][3] <= S[i + 1][3] for i in range(len(S) - 1)),
                     lambda: '%s stream not chronological: %r' % (ctx, S))
    seen = set()
    dup = None
    per = {}
    for a, b, op, t in S:
        k = (M.key(a, b), op, t)
        if k in seen:
            dup = (a, b, op, t)
        seen.add(k)
        per.setdefault(M.key(a, b), []).append((op, t))
    res &= rec.check(prefix + '.unique', dup is None, lambda: '%s stream repeats %r: %r' % (ctx, dup, S))
    plus = {(k, t) for (k, op, t) in seen if op == '+'}
    exp_plus = M.expected_plus()
    res &= rec.check(prefix + '.plus', plus == exp_plus,
                     lambda: "%s '+' events: missing %r, unexpected %r; stream %r" % (
                         ctx, sorted(exp_plus - plus, key=repr)[:4], sorted(plus - exp_plus, key=repr)[:4], S))
    if not M.removal:
        res &= rec.check(prefix + '.no_minus', not any(op == '-' for (_, op, _) in seen),
                         lambda: "%s accumulative stream has '-' events: %r" % (ctx, S))
        return res
    bad = None
    for (k, op, t) in seen:
        if op == '-' and not (M.present_key(k, t - 1) and not M.present_key(k, t)):
            bad = (k, t)
    res &= rec.check(prefix + '.minus_sound', bad is None,
                     lambda: "%s '-' event %r but runs of the pair are %r; stream %r" % (ctx, bad, M.runs(bad[0]), S))
    for k in (M.orient if closure else ()):
        kn_runs = []
        for r in M.runs(k):
            if r[1] > r[0]:
                closed = (k, '-', r[1] + 1) in seen
                kn = TRIG if (unclosed_known is not None and r[1] - r[0] == 1 and unclosed_known(k, r)) else None
                if kn:
                    kn_runs.append(r)
                res &= rec.check(prefix + '.run_closed', closed,
                                 lambda: "%s run %r of pair %r has no '-' at %r; stream %r" % (ctx, r, M.ends(k), r[1] + 1, S),
                                 known=kn)
        rp, orphan = replay_stream(per.get(k, []))
        exp = set(M.pres[k])
        if rp == exp and not orphan:
            rec.check(prefix + '.replay', True)
        else:
            # the listed finding may or may not manifest on each run it applies to (a later call that
            # restates the vanishing closes the run): what is missing must be second instants of such runs
            lost_ok = (not (rp - exp)) and (exp - rp) <= {r[1] for r in kn_runs}
            res &= rec.check(prefix + '.replay', False,
                             lambda: '%s replaying the stream of pair %r gives %r, presence is %r; events %r' % (
                                 ctx, M.ends(k), runs_repr(rp), runs_repr(exp), per.get(k)),
                             known=TRIG if (kn_runs and lost_ok and not orphan) else None)
    extra = [k for k in per if k not in M.orient]
    res &= rec.check(prefix + '.plus', not extra, lambda: '%s stream has events for pairs never added: %r' % (ctx, extra))
    return res


def primary_unclosed(M):
    return lambda k, r: r[1] in M.point_closed.get(k, ())


# ======================================================================= derived graphs
def scan_model(H, around=(), pad=2):
    """Presence model of an arbitrary graph H derived by scanning has_interaction over nodes^2 x
    instants.  Used to check self-consistency (C02-C05) of a graph the library built itself, without
    importing the semantics of the constructor that made it."""
    from ..model import Ref
    M = Ref(H.is_directed(), True)
    inst = set(around)
    for t in H.temporal_snapshots_ids():
        inst.add(t)
    for a, b, op, t in H.stream_interactions():
        inst.add(t)
    items = H.out_interactions() if H.is_directed() else H.interactions()
    for u, v, d in items:
        for iv in d.get('t', []):
            for x in iv:
                if type(x) is int:
                    inst.add(x)
    if not inst:
        probes = [-1, 0, 1]
    elif max(inst) - min(inst) <= 400:
        probes = list(range(min(inst) - pad, max(inst) + pad + 1))
    else:           # widely spread instants: probe around each of them instead of the whole range
        probes = sorted({t + k for t in inst for k in range(-pad, pad + 1)})
    for n, a in H.nodes(data=True):
        M.add_node(n, a)
    ns = list(H.nodes())
    for u in ns:
        for v in ns:
            if H.has_interaction(u, v):
                k = M.key(u, v)
                if k in M.orient:
                    continue
                M.orient[k] = (u, v)
                M.pres[k] = {t for t in probes if H.has_interaction(u, v, t)}
    M.graph = dict(H.graph)
    M._probes = probes
    return M


def simple_ids(nodes):
    """True when every node id survives the whitespace-delimited edge-list format."""
    for n in nodes:
        if type(n) is int:
            continue
        if isinstance(n, str) and n and not any(c.isspace() for c in n) and '#' not in n:
            continue
        return False
    return True


def json_ids(nodes):
    return all(type(n) in (int, str) for n in nodes)


# ======================================================================= C02: query battery
UNKNOWN = ['__unknown__', ('__u__', 0)]


def _pairs_counter(items, directed):
    from collections import Counter
    c = Counter()
    for it in items:
        u, v = it[0], it[1]
        c[(u, v) if directed else frozenset((u, v))] += 1
    return c


def _edges_counter(edges, directed):
    from collections import Counter
    return Counter(((u, v) if directed else frozenset((u, v))) for u, v in edges)


def check_queries(rec, prefix, G, M, nodes, ctx='', probes=None, nbunches=(), light=False):
    """C02: every snapshot / flattened query of G vs networkx on the static graph of the model.
    `nodes` is the universe (may contain ids that are not in G); nbunches are lists over
    universe + UNKNOWN."""
    import networkx as nx
    import dynetx as dn
    from collections import Counter
    directed = G.is_directed()
    probes = list(M.probes() if probes is None else probes)
    known_nodes = list(M.nodes)
    # iteration order of the graph itself (insertion order); decides which arcs the listed finding
    # 'directed_backward_arc' concerns
    okn, gn = safe(lambda: list(G.nodes()))
    iter_order = [n for n in gn if n in M.nodes] if okn else known_nodes
    P = prefix
    res = [True]

    foreign = not P.startswith('C02')

    def chk(sub, ok, detail, known=None):
        if foreign and not ok and known is not None and rec.all_known is not None \
                and rec.all_known.find('C02.' + sub, known) is not None:
            # a finding listed under C02 showing through a battery run for another property:
            # excluded here (and counted), reported by the C02 check
            rec.exclude('C02/' + known)
            rec.sub[P + '.' + sub] = rec.sub.get(P + '.' + sub, 0) + 1
            return True
        r = rec.check(P + '.' + sub, ok, detail, known=known)
        res[0] &= r
        return r

    def call(sub, fn, *a, **k):
        ok, val = safe(fn, *a, **k)
        if not ok:
            chk(sub, False, lambda: '%s %s raised %r' % (ctx, sub, val))
            return False, None
        return True, val

    def listed(x):
        return list(x)

    def nb_shape(nb, i, ordered=False):
        """The same nbunch as list / tuple / iterator / set / dict keys (rotated); ordered containers
        only where the iteration order decides which arcs a listed finding concerns."""
        forms = [list, tuple, iter] if ordered else [list, tuple, iter, set, lambda x: dict.fromkeys(x).keys()]
        f = forms[(i + len(nb)) % len(forms)]
        if f is tuple and any(isinstance(n, (tuple, frozenset)) for n in nodes):
            f = list        # a tuple nbunch that is itself a node id means that single node to networkx
        return f(nb)

    ts = [None] + probes
    if light:
        inhabited = [t for t in probes if M.count(t)]
        ts = [None] + inhabited[:6] + ([probes[0], probes[-1]] if probes else [])
    for t in ts:
        S = M.static(t)
        tag = '@none' if t is None else '@t'
        c2 = '%s t=%s' % (ctx, R(t))
        loops_here = (not directed) and any(u == v for u, v in S.edges())

        # ---------------------------------------------------------------- interactions
        def cmp_inter(sub, got_items, exp_edges, seq, extra=''):
            good_shape = all(isinstance(it, tuple) and len(it) == 3 for it in got_items)
            if not chk(sub, good_shape, lambda: '%s %s%s returned %r' % (c2, sub, extra, got_items)):
                return
            if t is not None:
                chk(sub, all(it[2] == {'t': [t]} for it in got_items),
                    lambda: '%s %s%s data dicts %r' % (c2, sub, extra, got_items))
            got = _pairs_counter(got_items, directed)
            exp = _edges_counter(exp_edges, directed)
            if got == exp:
                chk(sub, True, None)
                return
            kn = None
            if directed and seq is not None:
                pos = {n: i for i, n in enumerate(seq)}
                dropped = Counter({(u, v): 1 for (u, v) in exp if u != v and v in pos and u in pos and pos[v] < pos[u]})
                if dropped and got == exp - dropped:
                    kn = 'directed_backward_arc'
            chk(sub, False, lambda: '%s %s%s = %r, static graph has %r' % (c2, sub, extra, sorted(got.elements(), key=repr), sorted(exp.elements(), key=repr)), known=kn)

        for name, fn in (('interactions', lambda **k: G.interactions(**k)),
                         ('interactions_iter', lambda **k: listed(G.interactions_iter(**k))),
                         ('dn.interactions', lambda **k: dn.interactions(G, **k))):
            ok, items = call(name + tag, fn, t=t)
            if ok:
                cmp_inter(name + tag, items, S.edges(), iter_order)
            if light:
                break
        for nb in nbunches:
            seq = [n for n in nb if n in M.nodes]
            exp_edges = list(S.edges(seq))
            ok, items = call('interactions.nbunch' + tag, G.interactions, nb_shape(nb, len(ts), ordered=True), t)
            if ok:
                cmp_inter('interactions.nbunch' + tag, items, exp_edges, seq, extra='(%r)' % (nb,))
        if directed:
            for name, fn, ed in (('in_interactions', G.in_interactions, S.in_edges), ('out_interactions', G.out_interactions, S.out_edges),
                                 ('in_interactions_iter', lambda *a, **k: listed(G.in_interactions_iter(*a, **k)), S.in_edges),
                                 ('out_interactions_iter', lambda *a, **k: listed(G.out_interactions_iter(*a, **k)), S.out_edges)):
                if light and name.endswith('_iter'):
                    continue
                ok, items = call(name + tag, fn, t=t)
                if ok:
                    cmp_inter(name + tag, items, ed(), None)
                for nb in nbunches:
                    seq = [n for n in nb if n in M.nodes]
                    ok, items = call(name + '.nbunch' + tag, fn, nb_shape(nb, len(name)), t)
                    if ok:
                        cmp_inter(name + '.nbunch' + tag, items, list(ed(seq)), None, extra='(%r)' % (nb,))

        # ---------------------------------------------------------------- neighbourhoods
        for n in known_nodes:
            if directed:
                views = [('successors', G.successors, S.successors), ('predecessors', G.predecessors, S.predecessors),
                         ('neighbors', G.neighbors, S.successors),
                         ('successors_iter', lambda *a: listed(G.successors_iter(*a)), S.successors),
                         ('predecessors_iter', lambda *a: listed(G.predecessors_iter(*a)), S.predecessors),
                         ('neighbors_iter', lambda *a: listed(G.neighbors_iter(*a)), S.successors),
                         ('dn.neighbors', lambda *a: dn.neighbors(G, *a), S.successors)]
            else:
                views = [('neighbors', G.neighbors, S.neighbors),
                         ('neighbors_iter', lambda *a: listed(G.neighbors_iter(*a)), S.neighbors),
                         ('dn.neighbors', lambda *a: dn.neighbors(G, *a), S.neighbors)]
            if light:
                views = views[:2]
            for name, fn, ef in views:
                ok, got = call(name + tag, fn, n, t)
                if ok:
                    got = list(got)
                    exp = list(ef(n))
                    chk(name + tag, Counter(got) == Counter(exp), lambda: '%s %s(%r) = %r, static graph gives %r' % (c2, name, n, got, exp))
            ok, got = call('dn.all_neighbors' + tag, lambda: list(dn.all_neighbors(G, n, t)))
            if ok:
                exp = list(nx.all_neighbors(S, n))
                chk('dn.all_neighbors' + tag, Counter(got) == Counter(exp), lambda: '%s dn.all_neighbors(%r) = %r, static graph gives %r' % (c2, n, got, exp))
            ok, got = call('dn.non_neighbors' + tag, lambda: list(dn.non_neighbors(G, n, t)))
            if ok:
                exp1 = set(nx.non_neighbors(S, n))
                exp2 = set(S.nodes()) - set(nx.all_neighbors(S, n)) - {n}
                chk('dn.non_neighbors' + tag, len(got) == len(set(got)) and set(got) in (exp1, exp2),
                    lambda: '%s dn.non_neighbors(%r) = %r, static graph gives %r (or %r counting predecessors as neighbours)' % (c2, n, got, exp1, exp2))
            if directed and not light:
                for m in known_nodes:
                    ok, got = call('has_successor' + tag, G.has_successor, n, m, t)
                    if ok:
                        chk('has_successor' + tag, bool(got) == S.has_successor(n, m), lambda: '%s has_successor(%r, %r) = %r' % (c2, n, m, got))
                    ok, got = call('has_predecessor' + tag, G.has_predecessor, n, m, t)
                    if ok:
                        chk('has_predecessor' + tag, bool(got) == S.has_predecessor(n, m), lambda: '%s has_predecessor(%r, %r) = %r' % (c2, n, m, got))

        # ---------------------------------------------------------------- degrees
        def deg_ok(n, got, kind='degree'):
            if kind == 'in':
                return got == S.in_degree(n)
            if kind == 'out':
                return got == S.out_degree(n)
            d = S.degree(n)
            if not directed and S.has_edge(n, n):
                return got in (d, d - 1)      # loop counted twice (networkx) or once (docstring)
            return got == d

        dviews = [('degree', G.degree, 'degree'), ('degree_iter', lambda *a, **k: dict(G.degree_iter(*a, **k)), 'degree'),
                  ('dn.degree', lambda *a, **k: dn.degree(G, *a, **k), 'degree')]
        if directed:
            dviews += [('in_degree', G.in_degree, 'in'), ('out_degree', G.out_degree, 'out'),
                       ('in_degree_iter', lambda *a, **k: dict(G.in_degree_iter(*a, **k)), 'in'),
                       ('out_degree_iter', lambda *a, **k: dict(G.out_degree_iter(*a, **k)), 'out')]
        if light:
            dviews = [v for v in dviews if not v[0].endswith('_iter') and not v[0].startswith('dn.')]
        for name, fn, kind in dviews:
            ok, got = call(name + tag, fn, t=t)
            if ok:
                good = isinstance(got, dict) and set(got) == set(known_nodes) and all(deg_ok(n, got[n], kind) for n in known_nodes)
                chk(name + tag, good, lambda: '%s %s() = %r, static graph gives %r' % (
                    c2, name, got, dict(getattr(S, {'degree': 'degree', 'in': 'in_degree', 'out': 'out_degree'}[kind])())))
            for nb in nbunches:
                seq = [n for n in nb if n in M.nodes]
                ok, got = call(name + '.nbunch' + tag, fn, nb_shape(nb, len(name) + 1), t)
                if ok:
                    good = isinstance(got, dict) and set(got) == set(seq) and all(deg_ok(n, got[n], kind) for n in seq)
                    chk(name + '.nbunch' + tag, good, lambda: '%s %s(%r) = %r' % (c2, name, nb, got))
            if not name.endswith('_iter'):
                for n in known_nodes[:3]:
                    ok, got = call(name + '.single' + tag, fn, n, t)
                    if ok:
                        chk(name + '.single' + tag, (not isinstance(got, dict)) and deg_ok(n, got, kind),
                            lambda: '%s %s(%r) = %r, static degree %r' % (c2, name, n, got, S.degree(n)))
        if known_nodes:
            ok, got = call('dn.degree_histogram' + tag, dn.degree_histogram, G, t)
            if ok:
                hs = []
                for once in (False, True):
                    degs = [S.degree(n) - (1 if (once and not directed and S.has_edge(n, n)) else 0) for n in known_nodes]
                    cnt = Counter(degs)
                    hs.append([cnt.get(i, 0) for i in range(max(cnt) + 1)])
                chk('dn.degree_histogram' + tag, got in hs, lambda: '%s dn.degree_histogram = %r, static graph gives %r' % (c2, got, hs[0]))

        # ---------------------------------------------------------------- nodes
        if t is None:
            exp_nodes = set(known_nodes)
        else:
            exp_nodes = {n for n in known_nodes if S.degree(n) > 0}
        for name, fn in (('nodes', lambda: G.nodes(t=t)), ('nodes_iter', lambda: list(G.nodes_iter(t=t))), ('dn.nodes', lambda: dn.nodes(G, t))):
            ok, got = call(name + tag, fn)
            if ok:
                got = list(got)
                chk(name + tag, len(got) == len(set(got)) and set(got) == exp_nodes, lambda: '%s %s = %r, expected %r' % (c2, name, got, exp_nodes))
        ok, got = call('nodes.data' + tag, lambda: G.nodes(t=t, data=True))
        if ok:
            exp = {n: M.nodes[n] for n in exp_nodes}
            chk('nodes.data' + tag, isinstance(got, list) and len(got) == len(exp) and all(isinstance(x, tuple) and len(x) == 2 for x in got) and dict(got) == exp,
                lambda: '%s nodes(data=True) = %r, expected %r' % (c2, got, exp))
        for n in list(nodes) + UNKNOWN[:1]:
            ok, got = call('has_node' + tag, G.has_node, n, t)
            if ok:
                chk('has_node' + tag, bool(got) == (n in exp_nodes), lambda: '%s has_node(%r) = %r, expected %r' % (c2, n, got, n in exp_nodes))
        nviews = [('number_of_nodes', lambda: G.number_of_nodes(t)), ('dn.number_of_nodes', lambda: dn.number_of_nodes(G, t))]
        if not directed:
            nviews.append(('order', lambda: G.order(t)))
        elif t is None:
            nviews.append(('order', lambda: G.order()))
        for name, fn in nviews:
            ok, got = call(name + tag, fn)
            if ok:
                chk(name + tag, got == len(exp_nodes), lambda: '%s %s = %r, expected %r' % (c2, name, got, len(exp_nodes)))

        # ---------------------------------------------------------------- sizes
        m = S.number_of_edges()
        if directed:
            halved = m
        else:
            nloops = sum(1 for u, v in S.edges() if u == v)
            halved = int((2 * (m - nloops) + nloops) / 2)
        for name, fn in (('size', lambda: G.size(t)), ('number_of_interactions', lambda: G.number_of_interactions(t=t)),
                         ('dn.number_of_interactions', lambda: dn.number_of_interactions(G, t=t))):
            ok, got = call(name + tag, fn)
            if ok:
                kn = 'undirected_selfloop_present' if (loops_here and got == halved) else None
                chk(name + tag, got == m and not isinstance(got, bool), lambda: '%s %s = %r, static graph has %r interactions' % (c2, name, got, m), known=kn)
        if not light:
            for u in known_nodes:
                for v in known_nodes:
                    exp = 1 if S.has_edge(u, v) else 0
                    for name, fn in (('number_of_interactions.uv', lambda: G.number_of_interactions(u, v, t)),
                                     ('dn.number_of_interactions.uv', lambda: dn.number_of_interactions(G, u, v, t))):
                        ok, got = call(name + tag, fn)
                        if ok:
                            chk(name + tag, got == exp and got is not None, lambda: '%s %s(%r, %r) = %r, expected %r' % (c2, name, u, v, got, exp))
        # density (docstring formula with n = number_of_nodes(t), m = number of interactions)
        ok, got = call('dn.density' + tag, dn.density, G, t)
        if ok:
            n_ = len(exp_nodes)

            def dens(mm):
                if mm == 0 or n_ <= 1:
                    return 0
                dd = mm / (n_ * (n_ - 1))
                return dd if directed else 2 * dd
            exp = dens(m)
            good = isinstance(got, (int, float)) and abs(got - exp) <= 1e-12
            kn = None
            if not good:
                if t is not None and got == 0:
                    kn = 't_is_not_none'
                elif t is None and loops_here and abs(got - dens(halved)) <= 1e-12:
                    kn = 'undirected_selfloop_present'
            chk('dn.density' + tag, good, lambda: '%s dn.density = %r, formula gives %r (n=%d, m=%d)' % (c2, got, exp, n_, m), known=kn)
        # non_interactions
        ok, got = call('dn.non_interactions' + tag, lambda: list(dn.non_interactions(G, t)))
        if ok:
            if directed:
                exp = Counter(nx.non_edges(S))
                g2 = Counter(got)
                chk('dn.non_interactions' + tag, g2 == exp, lambda: '%s dn.non_interactions = %r, static graph non-edges %r' % (c2, sorted(g2.elements(), key=repr), sorted(exp.elements(), key=repr)),
                    known='directed_graph')
            else:
                exp = Counter(frozenset(p) for p in nx.non_edges(S))
                g2 = Counter(frozenset(p) for p in got)
                chk('dn.non_interactions' + tag, g2 == exp and all(len(p) == 2 for p in got),
                    lambda: '%s dn.non_interactions = %r, static graph non-edges %r' % (c2, got, sorted(map(tuple, exp), key=repr)))
    # ---------------------------------------------------------------- once per state
    ok, got = call('dn.is_empty', dn.is_empty, G)
    if ok:
        chk('dn.is_empty', got is (len(M.orient) == 0), lambda: '%s dn.is_empty = %r with %d interactions' % (ctx, got, len(M.orient)))
    ids = M.ids()
    for n in known_nodes:
        ok, got = call('get_node_snapshots', G.get_node_snapshots, n)
        if ok:
            exp = [t for t in ids if n in M.nodes_at(t)]
            chk('get_node_snapshots', got == exp, lambda: '%s get_node_snapshots(%r) = %r, expected %r' % (ctx, n, got, exp))
    return res[0]


# ======================================================================= derived graphs stay usable
def check_continuation(rec, prefix, H, HM, case, nodes, ctx='', k=0):
    """A graph the library built itself must behave like any other graph afterwards: up to four add
    calls of the case are shifted so that they start around H's last instant (one before it, on it,
    right after it) and applied to H and to a copy of its presence model in lock step."""
    from ..drive import apply_model, call_real, exc_kind
    adds = [op for op in case.get('ops', []) if op[0] in ('add', 'add_from', 'path', 'star', 'cycle')][:4]
    if not adds or not HM.removal:
        return True
    tpos = {'add': 3, 'add_from': 2, 'path': 2, 'star': 2, 'cycle': 2}
    epos = {'add': 4, 'add_from': 3, 'path': 4, 'star': 4, 'cycle': 4}
    inst = HM.mentioned_instants()
    last = max(inst) if inst else 0
    shift = last + (k % 3) - 1 - min(op[tpos[op[0]]] for op in adds)
    M2 = HM.copy()
    for n in nodes:
        pass
    res = True
    for op in adds:
        op2 = [x if not isinstance(x, list) else [y if not isinstance(y, list) else list(y) for y in x] for x in op]
        op2[tpos[op[0]]] += shift
        if op2[epos[op[0]]] is not None:
            op2[epos[op[0]]] += shift
        if H.is_directed() and op2[0] in ('star', 'cycle'):
            op2[3] = 'f'
        expected, applied, news = apply_model(M2, nodes, op2)
        ex = call_real(H, nodes, op2)
        if not rec.check(prefix + '.outcome', exc_kind(ex) == expected,
                         lambda: '%s then %r: expected %s, got %s (%r)' % (ctx, op2, expected, exc_kind(ex), ex)):
            return False
    c2 = ctx + ' + %d shifted calls' % len(adds)
    res &= check_presence(rec, prefix, H, M2, nodes, ctx=c2)
    res &= check_timelines(rec, prefix + '.timelines', H, M2, ctx=c2)
    res &= check_snapshots(rec, prefix + '.snapshots', H, M2, ctx=c2)
    # closure of runs / replay are C05's business (its listed finding applies to point extensions here)
    res &= check_stream(rec, prefix + '.stream', H, M2, ctx=c2, closure=False)
    return res


def observe_schedule(case):
    """Which calls of a history are followed by queries: 'every' call, every 'other' call, or only a
    'sparse' third of them (the final state is always checked).  A pure function of the case.
    Caches that go stale only when nobody looks in between need the sparse schedules; caches that go
    stale right after a look need the dense one."""
    n = sum(ord(c) for c in repr(case.get('ops'))) % 4
    if case.get('verylong'):       # fixed very long histories (a pair with 65+ runs): a look every tenth call
        return 'tenth'
    return ('every', 'every', 'other', 'sparse')[n]


def due(schedule, i, last):
    if i == last or schedule == 'every':
        return True
    if schedule == 'other':
        return i % 2 == 1
    if schedule == 'tenth':
        return i % 10 == 9
    return i % 3 == 2
