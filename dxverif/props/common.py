"""Oracles shared between property modules."""
import itertools


def safe(fn, *a, **k):
    """(True, value) or (False, exception) - the library's exceptions are data, not harness errors."""
    try:
        return True, fn(*a, **k)
    except Exception as ex:  # noqa: BLE001 - the answer of the code under test
        return False, ex


def check_presence(rec, prefix, G, M, nodes, ctx='', probes=None):
    """has_interaction over all ordered pairs of the universe x probe instants vs the model."""
    probes = M.probes() if probes is None else probes
    bad = None
    n = 0
    for u in nodes:
        for v in nodes:
            exp_any = M.present(u, v)
            ok, got = safe(G.has_interaction, u, v)
            n += 1
            if not ok or bool(got) != exp_any or not isinstance(got, bool):
                rec.check(prefix + '.has@none', False,
                          '%s: has_interaction(%r, %r) = %r, model says %r' % (ctx, u, v, got, exp_any))
                return False
            for t in probes:
                exp = M.present(u, v, t)
                ok, got = safe(G.has_interaction, u, v, t)
                if not ok or bool(got) != exp:
                    bad = (u, v, t, got, exp)
                    break
            if bad:
                break
        if bad:
            break
    rec.sub[prefix + '.has@none'] = rec.sub.get(prefix + '.has@none', 0) + n
    rec.sub[prefix + '.has@t'] = rec.sub.get(prefix + '.has@t', 0) + n * len(probes) - 1
    return rec.check(prefix + '.has@t', bad is None,
                     lambda: '%s: has_interaction(%r, %r, %r) = %r, model says %r; model runs %r' % (
                         ctx, bad[0], bad[1], bad[2], bad[3], bad[4], M.runs(M.key(bad[0], bad[1]))))


SINGLE_PAIR_BOUND = ('all histories of 1..3 add_interaction calls on one pair with t in 0..5 and e in {None} u t+1..6 '
                     '(27 spans), for DynDiGraph, DynGraph with fixed endpoint order and DynGraph with alternating '
                     'endpoint order: 3 x (27 + 27^2 + 27^3) = 61317 histories')


def single_pair_spans():
    out = []
    for t in range(6):
        out.append((t, None))
        for e in range(t + 1, 7):
            out.append((t, e))
    return out


def single_pair_histories():
    spans = single_pair_spans()
    for variant in ('DynDiGraph', 'DynGraph', 'DynGraph-flip'):
        cls = variant.split('-')[0]
        for n in (1, 2, 3):
            for hist in itertools.product(spans, repeat=n):
                ops = []
                for i, (t, e) in enumerate(hist):
                    if variant.endswith('flip') and i % 2 == 1:
                        ops.append(['add', 1, 0, t, e])
                    else:
                        ops.append(['add', 0, 1, t, e])
                yield {'cls': cls, 'removal': True, 'nodes': [1, 2], 'ops': ops}


# ======================================================================= C03: canonical timelines
def _timeline_ok(tl):
    """(shape_ok, order_ok, instants) for a timeline value."""
    if not isinstance(tl, list) or not tl:
        return False, False, set()
    inst = set()
    shape = True
    for iv in tl:
        if not (isinstance(iv, (list, tuple)) and len(iv) == 2 and all(type(x) is int for x in iv) and iv[0] <= iv[1]):
            shape = False
            break
        inst |= set(range(iv[0], iv[1] + 1))
    order = shape and all(tl[i][1] + 1 < tl[i + 1][0] for i in range(len(tl) - 1))
    return shape, order, inst


def check_timelines(rec, prefix, G, M, ctx='', coverage=True):
    """C03 on graph G whose presence relation is described by model M."""
    directed = G.is_directed()
    views = [('interactions', G.interactions)]
    if directed:
        views += [('in_interactions', G.in_interactions), ('out_interactions', G.out_interactions)]
    allok = True
    for name, fn in views:
        ok, items = safe(fn)
        if not rec.check(prefix + '.call', ok, lambda: '%s %s() raised %r' % (ctx, name, items)):
            return False
        seen = {}
        for it in items:
            good = isinstance(it, tuple) and len(it) == 3 and isinstance(it[2], dict) and 't' in it[2]
            if not rec.check(prefix + '.shape', good, lambda: '%s %s(): item %r' % (ctx, name, it)):
                allok = False
                continue
            u, v, d = it
            shape, order, inst = _timeline_ok(d['t'])
            allok &= rec.check(prefix + '.shape', shape, lambda: '%s %s(): timeline of (%r, %r) = %r' % (ctx, name, u, v, d['t']))
            if not shape:
                continue
            allok &= rec.check(prefix + '.order', order, lambda: '%s %s(): timeline of (%r, %r) = %r is not strictly increasing with gaps' % (ctx, name, u, v, d['t']))
            key = M.key(u, v)
            exp = set(M.pres.get(key, ())) if M.removal else None
            if exp is not None:
                allok &= rec.check(prefix + '.union', inst == exp,
                                   lambda: '%s %s(): timeline of (%r, %r) = %r, presence is %r' % (ctx, name, u, v, d['t'], runs_repr(exp)))
            seen[key] = d['t']
        if coverage and (name != 'interactions' or not directed):
            missing = [k for k in M.orient if k not in seen]
            allok &= rec.check(prefix + '.union', not missing,
                               lambda: '%s %s(): no timeline for pair(s) %r' % (ctx, name, missing[:3]))
    if not directed:
        for k, (u, v) in M.orient.items():
            ok1, a = safe(G.interactions, [u])
            ok2, b = safe(G.interactions, [v])
            if not (ok1 and ok2):
                rec.check(prefix + '.call', False, '%s interactions([n]) raised %r / %r' % (ctx, a, b))
                allok = False
                continue
            ta = [d['t'] for x, y, d in a if M.key(x, y) == k]
            tb = [d['t'] for x, y, d in b if M.key(x, y) == k]
            allok &= rec.check(prefix + '.symmetric', len(ta) == 1 and ta == tb,
                               lambda: '%s pair %r: timeline via %r = %r, via %r = %r' % (ctx, (u, v), u, ta, v, tb))
    return allok


def runs_repr(s):
    from ..model import runs_of
    return runs_of(s)


# ======================================================================= C04: snapshot index
def check_snapshots(rec, prefix, G, M, ctx='', probes=None):
    import dynetx as dn
    ok, ids = safe(G.temporal_snapshots_ids)
    exp_ids = M.ids()
    good = ok and isinstance(ids, list) and ids == exp_ids
    res = rec.check(prefix + '.ids', good, lambda: '%s temporal_snapshots_ids() = %r, inhabited instants are %r' % (ctx, ids, exp_ids))
    ok2, ids2 = safe(dn.temporal_snapshots_ids, G)
    res &= rec.check(prefix + '.ids', ok2 and ids2 == ids, lambda: '%s dn.temporal_snapshots_ids = %r vs method %r' % (ctx, ids2, ids))
    probes = M.probes() if probes is None else probes
    bad = None
    for t in probes:
        ok, c = safe(G.interactions_per_snapshots, t)
        if not ok or c != M.count(t):
            bad = (t, c, M.count(t))
            break
    rec.sub[prefix + '.count@t'] = rec.sub.get(prefix + '.count@t', 0) + len(probes) - 1
    res &= rec.check(prefix + '.count@t', bad is None,
                     lambda: '%s interactions_per_snapshots(%r) = %r, %r interactions are present' % ((ctx,) + bad))
    ok, cd = safe(G.interactions_per_snapshots)
    exp = {t: M.count(t) for t in exp_ids}
    res &= rec.check(prefix + '.counts', ok and isinstance(cd, dict) and cd == exp,
                     lambda: '%s interactions_per_snapshots() = %r, expected %r' % (ctx, cd, exp))
    ok, cd2 = safe(dn.interactions_per_snapshots, G)
    res &= rec.check(prefix + '.counts', ok and cd2 == cd, lambda: '%s dn.interactions_per_snapshots = %r vs %r' % (ctx, cd2, cd))
    if exp_ids:
        ok, avg = safe(G.avg_number_of_nodes)
        expa = sum(len(M.nodes_at(t)) for t in exp_ids) / len(exp_ids)
        res &= rec.check(prefix + '.avg_nodes', ok and isinstance(avg, (int, float)) and abs(avg - expa) <= 1e-9,
                         lambda: '%s avg_number_of_nodes() = %r, mean of |V_t| over ids is %r' % (ctx, avg, expa))
    return res


# ======================================================================= C05: stream
def replay_stream(events):
    """Replay rule of C05 for the events [(op, t)] of one pair (chronological)."""
    pres = set()
    cur = None
    orphan = False
    for op, t in sorted(events, key=lambda x: (x[1], 0 if x[0] == '-' else 1)):
        if op == '+':
            if cur is not None:
                pres.add(cur)
            cur = t
        else:
            if cur is None:
                orphan = True
            else:
                pres |= set(range(cur, t))
                cur = None
    if cur is not None:
        pres.add(cur)
    return pres, orphan


def check_stream(rec, prefix, G, M, ctx='', unclosed_known=None, closure=True):
    """C05 on graph G (removal mode) with presence model M.
    unclosed_known(key, run) -> True when the listed finding 'two_instant_run_from_two_points'
    applies to that run (a function of the history, never of the observed stream)."""
    import dynetx as dn
    TRIG = 'two_instant_run_from_two_points'
    ok, S = safe(lambda: list(G.stream_interactions()))
    if not rec.check(prefix + '.call', ok, lambda: '%s stream_interactions() raised %r' % (ctx, S)):
        return False
    ok2, S2 = safe(lambda: list(dn.stream_interactions(G)))
    res = rec.check(prefix + '.api', ok2 and S2 == S, lambda: '%s dn.stream_interactions differs: %r vs %r' % (ctx, S2, S))
    good = all(isinstance(x, tuple) and len(x) == 4 and x[2] in ('+', '-') for x in S)
    if not rec.check(prefix + '.shape', good, lambda: '%s stream items %r' % (ctx, S[:5])):
        return False
    res &= rec.check(prefix + '.sorted', all(S[i][3] <= S[i + 1][3] for i in range(len(S) - 1)),
                     lambda: '%s stream not chronological: %r' % (ctx, S))
    seen = set()
    dup = None
    per = {}
    for a, b, op, t in S:
        k = (M.key(a, b), op, t)
        if k in seen:
            dup = (a, b, op, t)
        seen.add(k)
        per.setdefault(M.key(a, b), []).append((op, t))
    res &= rec.check(prefix + '.unique', dup is None, lambda: '%s stream repeats %r: %r' % (ctx, dup, S))
    plus = {(k, t) for (k, op, t) in seen if op == '+'}
    exp_plus = M.expected_plus()
    res &= rec.check(prefix + '.plus', plus == exp_plus,
                     lambda: "%s '+' events: missing %r, unexpected %r; stream %r" % (
                         ctx, sorted(exp_plus - plus, key=repr)[:4], sorted(plus - exp_plus, key=repr)[:4], S))
    if not M.removal:
        res &= rec.check(prefix + '.no_minus', not any(op == '-' for (_, op, _) in seen),
                         lambda: "%s accumulative stream has '-' events: %r" % (ctx, S))
        return res
    bad = None
    for (k, op, t) in seen:
        if op == '-' and not (M.present_key(k, t - 1) and not M.present_key(k, t)):
            bad = (k, t)
    res &= rec.check(prefix + '.minus_sound', bad is None,
                     lambda: "%s '-' event %r but runs of the pair are %r; stream %r" % (ctx, bad, M.runs(bad[0]), S))
    for k in (M.orient if closure else ()):
        kn_runs = []
        for r in M.runs(k):
            if r[1] > r[0]:
                closed = (k, '-', r[1] + 1) in seen
                kn = TRIG if (unclosed_known is not None and r[1] - r[0] == 1 and unclosed_known(k, r)) else None
                if kn:
                    kn_runs.append(r)
                res &= rec.check(prefix + '.run_closed', closed,
                                 lambda: "%s run %r of pair %r has no '-' at %r; stream %r" % (ctx, r, M.ends(k), r[1] + 1, S),
                                 known=kn)
        rp, orphan = replay_stream(per.get(k, []))
        exp = set(M.pres[k])
        if rp == exp and not orphan:
            rec.check(prefix + '.replay', True)
        else:
            exp_known = exp - {r[1] for r in kn_runs}
            res &= rec.check(prefix + '.replay', False,
                             lambda: '%s replaying the stream of pair %r gives %r, presence is %r; events %r' % (
                                 ctx, M.ends(k), runs_repr(rp), runs_repr(exp), per.get(k)),
                             known=TRIG if (kn_runs and rp == exp_known and not orphan) else None)
    extra = [k for k in per if k not in M.orient]
    res &= rec.check(prefix + '.plus', not extra, lambda: '%s stream has events for pairs never added: %r' % (ctx, extra))
    return res


def primary_unclosed(M):
    return lambda k, r: r[1] in M.point_closed.get(k, ())


# ======================================================================= derived graphs
def scan_model(H, around=(), pad=2):
    """Presence model of an arbitrary graph H derived by scanning has_interaction over nodes^2 x
    instants.  Used to check self-consistency (C02-C05) of a graph the library built itself, without
    importing the semantics of the constructor that made it."""
    from ..model import Ref
    M = Ref(H.is_directed(), True)
    inst = set(around)
    for t in H.temporal_snapshots_ids():
        inst.add(t)
    for a, b, op, t in H.stream_interactions():
        inst.add(t)
    items = H.out_interactions() if H.is_directed() else H.interactions()
    for u, v, d in items:
        for iv in d.get('t', []):
            for x in iv:
                if type(x) is int:
                    inst.add(x)
    if inst:
        probes = list(range(min(inst) - pad, max(inst) + pad + 1))
    else:
        probes = [-1, 0, 1]
    for n, a in H.nodes(data=True):
        M.add_node(n, a)
    ns = list(H.nodes())
    for u in ns:
        for v in ns:
            if H.has_interaction(u, v):
                k = M.key(u, v)
                if k in M.orient:
                    continue
                M.orient[k] = (u, v)
                M.pres[k] = {t for t in probes if H.has_interaction(u, v, t)}
    M.graph = dict(H.graph)
    M._probes = probes
    return M


def simple_ids(nodes):
    """True when every node id survives the whitespace-delimited edge-list format."""
    for n in nodes:
        if type(n) is int:
            continue
        if isinstance(n, str) and n and not any(c.isspace() for c in n) and '#' not in n:
            continue
        return False
    return True


def json_ids(nodes):
    return all(type(n) in (int, str) for n in nodes)
