"""C17 - temporal statistics equal their stream-graph definitions."""
from collections import Counter
from fractions import Fraction
from itertools import combinations

from .. import gen
from ..drive import Driver
from .common import safe

ID = 'C17'
RULE = ('Removal-enabled states (histories of 2-12 calls, interval spans, multi-run pairs, isolated nodes, nodes that appear '
        'and disappear). DynGraph without self-loops: coverage, node_contribution(u), edge_contribution(u,v), uniformity, '
        'node_pair_uniformity(u,v), density, pair_density(u,v), node_density(u), snapshot_density(t), node_presence(u), '
        'avg_number_of_nodes for every node / pair / snapshot id, each compared (tolerance 1e-9) with an exact Fraction '
        'recomputed from the model presence and required to lie in [0,1]; measures whose denominator is zero are skipped '
        'and counted. Both classes: inter_event_time_distribution() / (u) (+ dn.* form) and, on DynDiGraph, the in/out '
        'variants == histogram of gaps between consecutive stream events restricted to the node (as endpoint / source / '
        'target); mass == #events-1, weighted sum == last-first. non-trivial = a pair with >= 2 runs one of which has '
        '>= 3 instants, and a node absent at some snapshot id.')
ASSUMPTIONS = ['e > t', 'node_density(u): denominator summed over all nodes including u (the value the repository test pins: 5/9)',
               'the per-pair inter-event form (u, v) is not named by the statement and is not checked']
TECHNIQUE = 'differential PBT: exact rational recomputation of every statistic from the reference model / the stream'
BUDGET = {'quick': {'cases': 10000, 'seconds': 45}, 'thorough': {'cases': 400000, 'seconds': 540}}
KINDS = ['add', 'add', 'add', 'add', 'add', 'add_from', 'path', 'star', 'cycle', 'node', 'recip']


def strategy(tier):
    return gen.tiered(tier, max_ops=12, min_ops=2, rejects=False, kinds=KINDS, selfloops=False, horizon=6, attrs=False, shifts=True)


def close(x, f):
    return isinstance(x, (int, float)) and abs(float(x) - float(f)) <= 1e-9


def run_case(case, rec):
    import dynetx as dn
    d = Driver(case)
    half = len(case['ops']) // 2
    for i, op in enumerate(case['ops']):
        r = d.step(op)
        if r['actual'] != r['expected']:
            rec.note('outcome_mismatch(left to C01)')
            return False
        if i + 1 == half and len(case['ops']) % 2 == 0 and d.M.ids():
            # the same object is measured in the middle of its history as well: a statistic must not
            # remember what it answered for an earlier state
            measure_all(rec, d, case['cls'] + ' (mid-history)')
            rec.classify('measured mid-history too')
    if not d.M.ids():
        return False
    return measure_all(rec, d, case['cls'])


def measure_all(rec, d, ctx):
    import dynetx as dn
    G, M = d.G, d.M
    ids = M.ids()
    V = list(M.nodes)
    T = len(ids)
    Tn = {n: {t for t in ids if n in M.nodes_at(t)} for n in V}

    def measure(sub, fn, args, exp, skip=False):
        if skip:
            rec.exclude('zero denominator:' + sub)
            return
        ok, got = safe(fn, *args)
        good = ok and close(got, exp)
        rec.check('C17.' + sub, good, lambda: '%s %s%r = %r, definition gives %s (= %r)' % (ctx, sub, tuple(args), got, exp, float(exp)))
        if ok and isinstance(got, (int, float)):
            rec.check('C17.range', -1e-9 <= got <= 1 + 1e-9, lambda: '%s %s%r = %r outside [0, 1]' % (ctx, sub, tuple(args), got))

    if not d.directed and any(a == b for a, b in M.orient.values()):
        rec.note('self-loop present: ratio measures skipped (outside the stated domain)')
    elif not d.directed:
        measure('coverage', G.coverage, (), Fraction(sum(len(Tn[n]) for n in V), T * len(V)))
        measure('avg_number_of_nodes', lambda: G.avg_number_of_nodes() / len(V), (), Fraction(sum(len(Tn[n]) for n in V), T * len(V)))
        num_u = sum(len(Tn[a] & Tn[b]) for a, b in combinations(V, 2))
        den_u = sum(len(Tn[a] | Tn[b]) for a, b in combinations(V, 2))
        measure('uniformity', G.uniformity, (), Fraction(num_u, den_u) if den_u else 0, skip=den_u == 0)
        num_d = sum(len(M.pres.get(M.key(a, b), ())) for a, b in combinations(V, 2))
        measure('density', G.density, (), Fraction(num_d, num_u) if num_u else 0, skip=num_u == 0)
        for n in V:
            measure('node_contribution', G.node_contribution, (n,), Fraction(len(Tn[n]), T))
            ok, got = safe(G.node_presence, n)
            rec.check('C17.node_presence', ok and got == Tn[n], lambda: '%s node_presence(%r) = %r, expected %r' % (ctx, n, got, Tn[n]))
            deg = sum(sum(1 for k in M.orient if n in M.orient[k] and M.present_key(k, t)) for t in Tn[n])
            den = sum(len(Tn[v] & Tn[n]) for v in V)
            measure('node_density', G.node_density, (n,), Fraction(deg, den) if den else 0)
        for a, b in combinations(V, 2):
            k = M.key(a, b)
            tuv = len(M.pres.get(k, ()))
            un = len(Tn[a] | Tn[b])
            it = len(Tn[a] & Tn[b])
            measure('node_pair_uniformity', G.node_pair_uniformity, (a, b), Fraction(it, un) if un else 0, skip=un == 0)
            measure('pair_density', G.pair_density, (a, b), Fraction(tuv, it) if it else 0)
            measure('pair_density', G.pair_density, (b, a), Fraction(tuv, it) if it else 0)
            if k in M.orient:
                measure('edge_contribution', G.edge_contribution, (a, b), Fraction(tuv, T))
                measure('edge_contribution', G.edge_contribution, (b, a), Fraction(tuv, T))
        for t in ids:
            n_t = len(M.nodes_at(t))
            m_t = M.count(t)
            exp = Fraction(2 * m_t, n_t * (n_t - 1)) if n_t > 1 else 0
            measure('snapshot_density', G.snapshot_density, (t,), exp)
    # ---- inter-event time distributions (both classes)
    ok, S = safe(lambda: list(G.stream_interactions()))
    if rec.check('C17.stream.call', ok, lambda: '%s stream raised %r' % (ctx, S)):
        def hist(events):
            ts = [e[3] for e in events]
            return dict(Counter(ts[i + 1] - ts[i] for i in range(len(ts) - 1)))

        def check_dist(sub, fn, args, events):
            ok, got = safe(fn, *args)
            exp = hist(events)
            good = ok and isinstance(got, dict) and got == exp
            rec.check('C17.' + sub, good, lambda: '%s %s%r = %r, gaps of the restricted stream give %r' % (ctx, sub, tuple(args), got, exp))
            if ok and isinstance(got, dict) and events:
                rec.check('C17.' + sub + '.mass', sum(got.values()) == len(events) - 1 and
                          sum(k * v for k, v in got.items()) == events[-1][3] - events[0][3],
                          lambda: '%s %s%r = %r: mass/weighted sum do not match %d events from %r to %r' % (
                              ctx, sub, tuple(args), got, len(events), events[0][3], events[-1][3]))
        check_dist('inter_event', G.inter_event_time_distribution, (), S)
        check_dist('inter_event', lambda: dn.inter_event_time_distribution(G), (), S)
        if d.directed:
            check_dist('inter_out_event', G.inter_out_event_time_distribution, (), S)
            check_dist('inter_in_event', G.inter_in_event_time_distribution, (), S)
        for n in V:
            check_dist('inter_event.node', G.inter_event_time_distribution, (n,), [e for e in S if e[0] == n or e[1] == n])
            check_dist('inter_event.node', lambda n=n: dn.inter_event_time_distribution(G, n), (), [e for e in S if e[0] == n or e[1] == n])
            if d.directed:
                check_dist('inter_out_event.node', G.inter_out_event_time_distribution, (n,), [e for e in S if e[0] == n])
                check_dist('inter_in_event.node', G.inter_in_event_time_distribution, (n,), [e for e in S if e[1] == n])
    for c in d.classes:
        rec.classify(c)
    rec.classify(type(G).__name__)
    long_multi = any(len(M.runs(k)) >= 2 and any(r[1] - r[0] >= 2 for r in M.runs(k)) for k in M.orient)
    absent = any(len(Tn[n]) < T for n in V)
    return long_multi and absent
