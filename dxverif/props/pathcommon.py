"""Brute-force oracle and validators for the time-respecting path properties (C12, C13, C15, C20)."""
from hypothesis import strategies as st

from .. import gen

KINDS = ['add', 'add', 'add', 'add', 'add_from', 'path', 'star', 'cycle', 'recip', 'tpath', 'tpath', 'tpath']

# (u index, v selector, start selector, end selector); selectors are resolved against the model
QUERY = st.tuples(st.integers(0, 7), st.sampled_from(['none', 'none', 'none', 'node', 'node', 'self']), st.integers(0, 7),
                  st.sampled_from(['none', 'first', 'present', 'present', 'id', 'between']), st.integers(0, 9),
                  st.sampled_from(['none', 'last', 'id', 'id', 'id', 'between']), st.integers(0, 9))


CHAIN_KINDS = ['add', 'add', 'add_from', 'star', 'recip', 'tpath', 'tpath', 'tpath', 'tpath', 'tpath']


def graph_strategy(selfloops=True, classes=('DynGraph', 'DynDiGraph'), max_ops=12, uni=(3, 5), tier='quick', chains=False):
    kw = dict(classes=classes, max_ops=max_ops, min_ops=3, rejects=False, kinds=CHAIN_KINDS if chains else KINDS,
              node_kinds=('int', 'safestr', 'pathstr'), attrs=False, horizon=3, maxlen=3, uni=uni,
              bases=[0, 0, 0, 1, -7, -3, -2, 1000, -10 ** 6, 10 ** 9, 2 ** 63 - 3])   # the last one: ids on both sides of 2**63
    # two thirds of the graphs are free of self-loops: a self-loop on the root puts the query inside the
    # footprint of the listed root_selfloop_in_window finding, where C13/C15 can say less.  One graph in
    # seven is 'wide': few calls spread over instants 0..13, so that snapshot ids have one and two digits
    # (occurrence names such as 1_1 and 1_10) and lie far apart.
    wide = dict(kw, horizon=12, max_ops=min(max_ops, 7), bases=[0, 1, -5], maxlen=2)
    small = st.one_of(gen.history(selfloops=False, **kw), gen.history(selfloops=False, **kw), gen.history(**kw),
                      gen.history(selfloops=False, **kw), gen.history(selfloops=False, **kw), gen.history(**kw),
                      gen.history(selfloops=False, **wide))
    if tier != 'thorough':
        return small
    # thorough: one more node, one more instant, longer histories (path counts grow exponentially:
    # enumerations beyond 20 000 paths are skipped and counted)
    big = dict(kw, max_ops=max_ops + 4, horizon=4, uni=(uni[0], uni[1] + 1))
    return st.one_of(small, gen.history(selfloops=False, **big), gen.history(**big))


def small_universe_cases(directed_step=8, loops=False):
    """Every presence relation on 3 nodes x instants {0,1,2} (single-instant adds, chronological):
    all 511 undirected ones without self-loops, and every `directed_step`-th directed one by bit index."""
    import itertools
    und = [(0, 1), (0, 2), (1, 2)] + ([(0, 0), (1, 1)] if loops else [])
    dr = [(0, 1), (1, 0), (0, 2), (2, 0), (1, 2), (2, 1)]
    for bits in range(1, 2 ** (3 * len(und))):
        ops = [['add', a, b, t, None] for i, ((a, b), t) in enumerate(itertools.product(und, range(3))) if bits >> i & 1]
        yield {'cls': 'DynGraph', 'removal': True, 'nodes': [0, 1, 2], 'ops': sorted(ops, key=lambda o: o[3]), 'all_q': True}
    for bits in range(directed_step, 2 ** 18, directed_step):
        ops = [['add', a, b, t, None] for i, ((a, b), t) in enumerate(itertools.product(dr, range(3))) if bits >> i & 1]
        yield {'cls': 'DynDiGraph', 'removal': True, 'nodes': [0, 1, 2], 'ops': sorted(ops, key=lambda o: o[3]), 'all_q': True}


def resolve(M, nodes, q):
    """(u, v, start, end) for a drawn query; bounds stay inside [first id, last id]."""
    ui, vsel, vi, ssel, si, esel, ei = q
    ids = M.ids()
    known = list(M.nodes)
    u = known[ui % len(known)]
    v = None if vsel == 'none' else (u if vsel == 'self' else known[vi % len(known)])
    lo, hi = ids[0], ids[-1]
    inside = list(range(lo, hi + 1))
    non_ids = [t for t in inside if t not in ids]

    def pick(sel, i, default_none):
        if sel == 'none':
            return None
        if sel in ('first',):
            return lo
        if sel in ('last',):
            return hi
        if sel == 'between' and non_ids:
            return non_ids[i % len(non_ids)]
        if sel == 'present':
            pres = [t for t in ids if u in M.nodes_at(t)]
            if pres:
                return pres[i % len(pres)]
        return ids[i % len(ids)]
    start = pick(ssel, si, None)
    end = pick(esel, ei, None)
    s_eff = lo if start is None else start
    e_eff = hi if end is None else end
    if s_eff > e_eff:
        if start is not None and end is not None:
            start, end = end, start
        elif start is not None:
            start = None
        else:
            end = None
    return u, v, start, end


class PathOracle:
    """Everything is computed from the model's presence relation only."""

    def __init__(self, M):
        self.M = M
        self.directed = M.directed
        self.ids = M.ids()

    def nbrs(self, x, t):
        out = []
        for k, (a, b) in self.M.orient.items():
            if not self.M.present_key(k, t):
                continue
            if self.directed:
                if a == x:
                    out.append(b)
            else:
                if a == x:
                    out.append(b)
                elif b == x:
                    out.append(a)
        return out

    def has_hop(self, a, b, t):
        return self.M.present(a, b, t)

    def window(self, start, end):
        lo = self.ids[0] if start is None else start
        hi = self.ids[-1] if end is None else end
        return lo, hi, [t for t in self.ids if lo <= t <= hi]

    def present_at(self, u, t):
        """has_node(u, t): some interaction (in or out) of u at t."""
        return u in self.M.nodes_at(t)

    def enumerate(self, u, v, start, end, limit=20000):
        """All hop sequences satisfying the conditions of C12, as tuples of hops.  None if > limit."""
        lo, hi, wids = self.window(start, end)
        res = set()
        stack = []
        for s in wids:
            for x in self.nbrs(u, s):
                stack.append(((u, x, s),))
        while stack:
            path = stack.pop()
            a, b, t = path[-1]
            if v is None or b == v:
                res.add(path)
                if len(res) > limit:
                    return None
            for t2 in wids:
                if t2 <= t:
                    continue
                nb = self.nbrs(b, t2)
                if not nb:
                    break          # the waiting occurrence expires at the first id where b has nobody
                for y in nb:
                    if y == a:
                        continue   # immediate reversal
                    stack.append(path + ((b, y, t2),))
        return res

    def validate(self, path, u, v, start, end):
        """List of violated C12 conditions for one returned path."""
        lo, hi, wids = self.window(start, end)
        bad = []
        if not isinstance(path, tuple) or len(path) == 0:
            return ['nonempty_tuple']
        for h in path:
            if not (isinstance(h, tuple) and len(h) == 3):
                return ['hop_arity']
        if path[0][0] != u:
            bad.append('first_hop_leaves_u')
        for i in range(len(path) - 1):
            if path[i][1] != path[i + 1][0]:
                bad.append('chaining')
            if not path[i][2] < path[i + 1][2]:
                bad.append('increasing_times')
            if path[i + 1][0] == path[i][1] and path[i + 1][1] == path[i][0]:
                bad.append('no_reversal')
        for (a, b, t) in path:
            if not (type(t) is int and lo <= t <= hi):
                bad.append('within_window')
            elif not self.has_hop(a, b, t):
                bad.append('hop_present')
        for i in range(len(path) - 1):
            b, arr, dep = path[i][1], path[i][2], path[i + 1][2]
            if type(arr) is int and type(dep) is int:
                for t in wids:
                    if arr < t < dep and not self.nbrs(b, t):
                        bad.append('waiting')
                        break
        if v is not None and path[-1][1] != v:
            bad.append('reaches_v')
        return sorted(set(bad))

    def root_selfloop_in_window(self, u, start, end):
        lo, hi, wids = self.window(start, end)
        return any(self.M.present(u, u, t) for t in wids)
