"""C20 - delta-conformity is bounded, relabelling-invariant, consistent when sliding."""
import copy

from hypothesis import strategies as st

from ..drive import Driver, new_graph, call_real
from ..gen import fresh as gen_fresh
from . import pathcommon as pc
from .common import safe

ID = 'C20'
RULE = ('Labelled removal-enabled DynGraphs (3-5 nodes, <= 6 snapshot ids, int or _-free string ids, 1-2 categorical labels '
        'with 1-3 values, every node labelled) x start on/off the ids x delta 0-5 x 1-2 alphas from an 11-value pool (incl. pairs that print alike with two decimals, never in one call) x '
        'profile_size 1-2 x all five path types. Oracles: every score in [-1-1e-9, 1+1e-9]; scored nodes == nodes present '
        'at start in the model slice [start, start+delta]; None iff that slice is empty; scores unchanged (1e-9) under a '
        'bijective renaming of label values and of node ids (the graph is rebuilt from the renamed history); with one shared '
        'label value the score is 1 for nodes that reach another node (brute-force reachability on the model) and 0 '
        'otherwise; sliding_delta_conformity has, per node, exactly the entries (t+delta, delta_conformity(G,t,delta)[..]) '
        'for the snapshot ids t with t+delta < last id. non-trivial = >= 2 label values in use and a scored node that '
        'reaches >= 2 others at different hop distances.')
ASSUMPTIONS = ['e > t', "node ids are ints or '_'-free strings", 'static categorical labels, no hierarchies, sample=1']
TECHNIQUE = 'metamorphic PBT (relabelling, node renaming, uniform labels, sliding vs direct) with brute-force reachability'
BUDGET = {'quick': {'cases': 5000, 'seconds': 80}, 'thorough': {'cases': 150000, 'seconds': 560}}
PATH_TYPES = ['shortest', 'fastest', 'foremost', 'fastest_shortest', 'shortest_fastest']
EPS = 1e-9


# damping factors incl. near-twins that print alike with two decimals (1 / 1.004, 0.5 / 0.496, 2 / 1.996, 1/3 / 0.33): results
# are keyed by '%.2f' % alpha, so one call never gets two of a kind, but consecutive calls do
ALPHAS = [0.5, 1, 2.5, 0.505, 1.234, 2, 1.004, 0.496, 1.996, 1 / 3, 0.33]


def strategy(tier):
    return st.tuples(pc.graph_strategy(classes=('DynGraph',), tier=tier, uni=(5, 7), max_ops=16, chains=True), st.lists(st.integers(0, 2), min_size=8, max_size=8),
                     st.lists(st.integers(0, 2), min_size=8, max_size=8), st.integers(1, 2), st.integers(1, 2),
                     st.lists(st.sampled_from(ALPHAS), min_size=1, max_size=2, unique_by=lambda a: '%.2f' % a), st.sampled_from(PATH_TYPES),
                     st.integers(0, 9), st.sampled_from(['id', 'id', 'id', 'off', 'before']), st.integers(0, 5), st.integers(0, 5)).map(
        lambda x: dict(x[0], lab1=x[1], lab2=x[2], nlabels=x[3], psize=min(x[4], x[3]), alphas=x[5], ptype=x[6], si=x[7], smode=x[8],
                       delta=x[9], perm=x[10]))


VALUES = ['x', 'y', 'z']


def build(case, node_map=None, value_map=None, uniform=False):
    """Rebuild the labelled graph (optionally with renamed nodes / label values)."""
    d = Driver(case)
    if node_map is not None:
        d.anodes = [node_map[n] for n in d.nodes]
        d.nodes = [gen_fresh(n) for n in d.anodes]
    for op in case['ops']:
        r = d.step(op)
        if r['actual'] != r['expected']:
            return None
    labels = ['l1', 'l2'][:case['nlabels']]
    for i, n in enumerate(d.nodes):
        if n not in d.M.nodes:
            continue
        attrs = {}
        for lab, src in zip(labels, (case['lab1'], case['lab2'])):
            val = VALUES[0] if uniform else VALUES[src[i % len(src)]]
            attrs[lab] = (value_map or {}).get(val, val)
        d.G.add_node(n, **attrs)
        d.M.add_node(n, attrs)
    return d, labels


def close_scores(a, b, node_map=None):
    if (a is None) != (b is None):
        return False
    if a is None:
        return True
    if set(a) != set(b):
        return False
    for al in a:
        if set(a[al]) != set(b[al]):
            return False
        for prof in a[al]:
            x = a[al][prof]
            y = b[al][prof]
            if node_map is not None:
                x = {node_map[n]: v for n, v in x.items()}
            if set(x) != set(y) or any(abs(x[n] - y[n]) > EPS for n in x):
                return False
    return True


def run_case(case, rec):
    import dynetx.algorithms as al
    built = build(case)
    if built is None:
        rec.note('outcome_mismatch(left to C01)')
        return False
    d, labels = built
    G, M = d.G, d.M
    ids = M.ids()
    if not ids:
        return False
    if case['smode'] == 'id':
        start = ids[case['si'] % len(ids)]
    elif case['smode'] == 'off':
        non = [t for t in range(ids[0], ids[-1] + 1) if t not in ids]
        start = non[case['si'] % len(non)] if non else ids[-1] + 1
    else:
        start = ids[0] - 1 - case['si'] % 2
    delta = case['delta']
    alphas = list(case['alphas'])
    kw = dict(profile_size=case['psize'], path_type=case['ptype'])
    ctx = 'delta_conformity(start=%r, delta=%r, alphas=%r, labels=%r, %r)' % (start, delta, alphas, labels, kw)
    ok, res = safe(al.delta_conformity, G, start, delta, alphas, labels, **kw)
    if not rec.check('C20.call', ok, lambda: '%s raised %r' % (ctx, res)):
        return False
    S = M.slice(start, start + delta)
    empty = not S.orient
    rec.check('C20.none', (res is None) == empty, lambda: '%s returned %r but the window slice %s' % (ctx, res, 'is empty' if empty else 'has interactions'))
    rec.classify('start:' + case['smode'])
    nontrivial = False
    if res is not None:
        exp_nodes = S.nodes_at(start)
        exp_alpha = {'%.2f' % a for a in alphas}
        from itertools import combinations
        exp_prof = {'_'.join(p) for i in range(1, case['psize'] + 1) for p in combinations(labels, i)}
        shape = isinstance(res, dict) and set(res) == exp_alpha and all(set(res[a]) == exp_prof for a in res)
        if rec.check('C20.shape', shape, lambda: '%s returned keys %r' % (ctx, res)):
            for a in res:
                for prof in res[a]:
                    sc = res[a][prof]
                    rec.check('C20.nodes', set(sc) == exp_nodes, lambda: '%s scores nodes %r, nodes present at start in the window are %r' % (ctx, sorted(sc, key=repr), sorted(exp_nodes, key=repr)))
                    bad = {n: v for n, v in sc.items() if not (isinstance(v, (int, float)) and -1 - EPS <= v <= 1 + EPS)}
                    rec.check('C20.range', not bad, lambda: '%s scores outside [-1, 1]: %r' % (ctx, bad))
        # reachability on the slice (brute force, model only)
        O = pc.PathOracle(S)
        sids = S.ids()
        reach = {}
        for u in exp_nodes:
            paths = O.enumerate(u, None, max(start, sids[0]), min(sids[-1], start + delta))
            if paths is None:
                reach = None
                break
            dist = {}
            for p in paths:
                w = p[-1][1]
                if w != u:
                    dist[w] = min(dist.get(w, 99), len(p))
            reach[u] = dist
        # ---- relabel
        # two bijections: a permutation of the names, and one onto other categorical values (ints, '')
        for vm in ({'x': 'q', 'y': 'x', 'z': 'y'}, {'x': 0, 'y': '', 'z': 7}):
            d2, _ = build(case, value_map=vm)
            ok, r2 = safe(al.delta_conformity, d2.G, start, delta, alphas, labels, **kw)
            rec.check('C20.relabel', ok and close_scores(res, r2), lambda: '%s changes under the bijective renaming of label values %r: %r vs %r' % (ctx, vm, res, r2))
        # ---- rename nodes
        ns = list(d.nodes)
        k = case['perm'] % len(ns) or 1
        if all(type(n) is int for n in ns):
            nm = {n: 1000 + ((i * 7 + k) % 97) * 3 + i for i, n in enumerate(ns)}
        else:
            nm = {n: 'r%d%s' % ((i + k) % len(ns), 'abcdefgh'[i]) for i, n in enumerate(ns)}
        if len(set(nm.values())) == len(ns):
            d3, _ = build(case, node_map=nm)
            ok, r3 = safe(al.delta_conformity, d3.G, start, delta, alphas, labels, **kw)
            rec.check('C20.rename', ok and close_scores(res, r3, nm), lambda: '%s changes under a bijective renaming of node ids %r: %r vs %r' % (ctx, nm, res, r3))
        # ---- uniform labels
        d4, _ = build(case, uniform=True)
        ok, r4 = safe(al.delta_conformity, d4.G, start, delta, alphas, labels, **kw)
        if rec.check('C20.uniform', ok and r4 is not None, lambda: '%s with one shared label raised/returned %r' % (ctx, r4)) and reach is not None:
            bad = []
            for a in r4:
                for prof in r4[a]:
                    for n, v in r4[a][prof].items():
                        want = 1.0 if reach.get(n) else 0.0
                        if abs(v - want) > EPS:
                            bad.append((a, prof, n, v, want))
            rec.check('C20.uniform', not bad, lambda: '%s with one shared label: (alpha, profile, node, score, expected) %r; reachability %r' % (ctx, bad[:4], reach))
        if reach:
            used = {M.nodes[n].get(l) for n in M.nodes for l in labels}
            if len(used) >= 2 and any(len(set(dd.values())) >= 2 for dd in reach.values()):
                nontrivial = True
    # ---- sliding
    if case['si'] % 3 == 0:
        import contextlib, io
        with contextlib.redirect_stderr(io.StringIO()):     # the sliding variant switches the inner progress bars on
            ok, sl = safe(al.sliding_delta_conformity, G, delta, alphas, labels, **kw)
        sctx = 'sliding_delta_conformity(delta=%r, alphas=%r, labels=%r, %r)' % (delta, alphas, labels, kw)
        if rec.check('C20.sliding.call', ok, lambda: '%s raised %r' % (sctx, sl)):
            exp = {}
            for t in ids:
                if t + delta < ids[-1]:
                    okd, dc = safe(al.delta_conformity, G, t, delta, alphas, labels, **kw)
                    if not okd:
                        exp = None
                        break
                    if dc is None:
                        continue
                    for a, data in dc.items():
                        for prof, nv in data.items():
                            for n, v in nv.items():
                                exp.setdefault(a, {}).setdefault(prof, {}).setdefault(n, []).append((t + delta, v))
            if exp is not None:
                got = {a: {p: {n: list(v) for n, v in nv.items()} for p, nv in data.items()} for a, data in sl.items()}
                same = set(got) == set(exp) and all(set(got[a]) == set(exp[a]) for a in got) and all(
                    set(got[a][p]) == set(exp[a][p]) and all(
                        len(got[a][p][n]) == len(exp[a][p][n]) and all(x[0] == y[0] and abs(x[1] - y[1]) <= EPS for x, y in zip(got[a][p][n], exp[a][p][n]))
                        for n in got[a][p]) for a in got for p in got[a])
                rec.check('C20.sliding', same, lambda: '%s = %r, expected %r' % (sctx, got, exp))
                rec.classify('sliding windows: %d' % min(5, sum(1 for t in ids if t + delta < ids[-1])))
    # ---- the answer depends on the graph state only: the already-queried object is extended inside the
    # window and asked the same question again; a graph built in one go with the same history must agree
    known = [n for n in d.nodes if n in M.nodes]
    if res is not None and len(known) >= 2 and case['perm'] % 2 == 0:
        extra = []
        for j in range(2):
            a = known[(case['perm'] + j) % len(known)]
            b = known[(case['perm'] + j + 1 + case['si']) % len(known)]
            if a != b:
                extra.append(['add', d.nodes.index(a), d.nodes.index(b), start + (case['si'] + j) % (delta + 1), None])
        case2 = dict(case, ops=list(case['ops']) + extra)
        built2 = build(case2)
        if extra and built2 is not None:
            applied = True
            for op in extra:
                if call_real(G, d.nodes, op) is not None:
                    applied = False       # rejected by the ordering rule on the live object: nothing to compare
                    break
            if applied:
                ok1, again = safe(al.delta_conformity, G, start, delta, alphas, labels, **kw)
                ok2, fresh = safe(al.delta_conformity, built2[0].G, start, delta, alphas, labels, **kw)
                rec.check('C20.state_only', ok1 and ok2 and close_scores(again, fresh),
                          lambda: '%s after adding %r to the queried graph: %r, a graph built in one go gives %r' % (ctx, extra, again, fresh))
                rec.classify('re-queried after extending the window')
    for c in d.classes:
        rec.classify(c)
    rec.classify('path_type:' + case['ptype'])
    return nontrivial
