"""C16 - directed/undirected conversion preserves presence and isolates the copy."""
import copy

from hypothesis import strategies as st

from .. import gen
from ..drive import Driver
from ..observe import observe, diff
from . import common
from .common import safe

ID = 'C16'
RULE = ('Reachable removal-enabled states (histories of 1-12 calls; reciprocal arcs with different / overlapping '
        'timelines, self-loops, isolated attributed nodes, nested mutable node and graph attributes, int/str/tuple/'
        'frozenset/mixed/plain-object - i.e. also unorderable, hash-colliding and identity-equal - node ids; graph attribute names incl. edge_removal / data / name). DynDiGraph: to_undirected() presence == union of both '
        'directions, to_undirected(reciprocal=True) == intersection; DynGraph: to_directed() has both arcs with the '
        'pair\'s timeline. Plus: class, all nodes kept, attributes equal, deep-copy isolation (every nested attribute value '
        'of the result is mutated, a node and an interaction are added to it, then observe(G) must be unchanged), G '
        'unchanged by the conversion itself, result well formed against its own presence scan (C03/C04/C05 + C02 battery). '
        'non-trivial = (directed) a reciprocal pair whose two timelines differ or (undirected) a multi-run pair, plus an '
        'isolated node or a nested attribute value.')
ASSUMPTIONS = ['e > t in the generated histories']
TECHNIQUE = 'model-based PBT for presence; mutation-based isolation test; invariant checks on the converted graph'
BUDGET = {'quick': {'cases': 8000, 'seconds': 45}, 'thorough': {'cases': 300000, 'seconds': 540}}
KINDS = ['add', 'add', 'add', 'add', 'add', 'add_from', 'path', 'cycle', 'node', 'node', 'nodes_from', 'recip']

GATTR = st.dictionaries(st.sampled_from(['name2', 'meta', 'tags', 'edge_removal', 'data', 'name']), gen.ATTR_VALUES, max_size=2)


def strategy(tier):
    return st.tuples(gen.tiered(tier, max_ops=12, rejects=False, kinds=KINDS, shifts=True), GATTR).map(lambda x: dict(x[0], gattr=x[1]))


_zero_factory = lambda: 0     # a module-level lambda: deep-copyable (by reference), not picklable


def mutate_nested(x):
    """Mutate every mutable value reachable from x in place (through tuples as well)."""
    if isinstance(x, dict):
        for v in list(x.values()):
            mutate_nested(v)
        x['__mutated__'] = 1
    elif isinstance(x, list):
        for v in x:
            mutate_nested(v)
        x.append('__mutated__')
    elif isinstance(x, tuple):
        for v in x:
            mutate_nested(v)
    elif isinstance(x, set):
        x.add('__mutated__')


def has_nested(x):
    return isinstance(x, (dict, list, tuple, set))


def check_arcs(rec, sub, H, exp_runs, u, v, probes, ctx, known=None, known_ok=None):
    """Arc/pair (u, v) of H must be present exactly at the instants of exp (a set)."""
    ok, got = safe(lambda: {t for t in probes if H.has_interaction(u, v, t)})
    ok2, ever = safe(H.has_interaction, u, v)
    good = ok and ok2 and got == exp_runs and bool(ever) == bool(exp_runs)
    if good:
        return rec.check(sub, True)
    kn = known if (known is not None and known_ok is not None and known_ok(got if ok else None, ever if ok2 else None)) else None
    return rec.check(sub, False, lambda: '%s: (%r, %r) present at %r (ever=%r), expected %r' % (
        ctx, u, v, common.runs_repr(got) if ok else got, ever, common.runs_repr(exp_runs)), known=kn)


def run_case(case, rec):
    d = Driver(case)
    for op in case['ops']:
        r = d.step(op)
        if r['actual'] != r['expected']:
            rec.note('outcome_mismatch(left to C01)')
            return False
    G, M = d.G, d.M
    G.graph.update(copy.deepcopy(case.get('gattr', {})))
    # attribute values are arbitrary Python objects: a tuple holding a list, a set inside a dict, and (every
    # third case) a value that can be deep-copied but not pickled
    if M.nodes:
        import collections
        ns = list(M.nodes)
        extra = {'route': ('depot', ['a', 'b']), 'tags': {'s': {1, 2}}}
        if len(case['ops']) % 3 == 0:
            extra['counts'] = collections.defaultdict(_zero_factory)
            extra['counts']['seen'] = [1]
        G.add_node(ns[0], **copy.deepcopy(extra))
        M.add_node(ns[0], extra)
        G.add_node(ns[-1], route2=(1, {'k': [2]}))
        M.add_node(ns[-1], {'route2': (1, {'k': [2]})})
        G.graph['gt'] = ('x', [1, {'y': []}])
    M.graph = copy.deepcopy(dict(G.graph))
    probes = M.probes()
    nodes = d.nodes
    ok, before = safe(observe, G, nodes, probes)
    if not ok:
        rec.check('C16.observe', False, 'observe(G) raised %r' % (before,))
        return False
    conversions = []
    if d.directed:
        conversions.append(('to_undirected()', lambda: G.to_undirected(), M.to_undirected(False)))
        conversions.append(('to_undirected(reciprocal=True)', lambda: G.to_undirected(reciprocal=True), M.to_undirected(True)))
    else:
        conversions.append(('to_directed()', lambda: G.to_directed(), M.to_directed()))
    for name, thunk, Em in conversions:
        ok, H = safe(thunk)
        if not rec.check('C16.call', ok, lambda: '%s raised %r' % (name, H)):
            continue
        import dynetx as dn
        want = dn.DynGraph if d.directed else dn.DynDiGraph
        rec.check('C16.class', type(H) is want, lambda: '%s returned %r' % (name, type(H)))
        # ---- presence
        if d.directed:
            sub = 'C16.to_undirected.reciprocal' if 'reciprocal' in name else 'C16.to_undirected.presence'
            for u in nodes:
                for v in nodes:
                    exp = set(Em.pres.get(Em.key(u, v), ()))
                    check_arcs(rec, sub, H, exp, u, v, probes, name)
        else:
            for k, (u, v) in M.orient.items():
                exp = set(M.pres[k])
                if u == v:
                    check_arcs(rec, 'C16.to_directed.forward_arc', H, exp, u, v, probes, name)
                    continue
                # which orientation the library keeps is its own business; at least one arc must be exact
                oka, a = safe(lambda: {t for t in probes if H.has_interaction(u, v, t)})
                okb, b = safe(lambda: {t for t in probes if H.has_interaction(v, u, t)})
                fwd = (u, v) if (oka and a == exp) or not (okb and b == exp) else (v, u)
                rev = (fwd[1], fwd[0])
                check_arcs(rec, 'C16.to_directed.forward_arc', H, exp, fwd[0], fwd[1], probes, name)
                check_arcs(rec, 'C16.to_directed.reverse_arc', H, exp, rev[0], rev[1], probes, name,
                           known='non_loop_pair_reverse_arc_absent',
                           known_ok=lambda got, ever: got == set() and ever is False)
            # no arcs that the source does not have
            for u in nodes:
                for v in nodes:
                    if M.key(u, v) not in M.orient:
                        check_arcs(rec, 'C16.to_directed.forward_arc', H, set(), u, v, probes, name)
        # ---- nodes and attributes
        ok, hn = safe(lambda: dict(H.nodes(data=True)))
        rec.check('C16.nodes', ok and set(hn) == set(M.nodes), lambda: '%s nodes = %r, source has %r' % (name, list(hn) if ok else hn, list(M.nodes)))
        rec.check('C16.attrs_equal', ok and hn == M.nodes, lambda: '%s node attributes %r, source %r' % (name, hn, M.nodes))
        rec.check('C16.attrs_equal', dict(H.graph) == M.graph, lambda: '%s graph attributes %r, source %r' % (name, H.graph, M.graph))
        # ---- well-formedness of the result against its own presence scan
        ok, HM = safe(common.scan_model, H, M.mentioned_instants())
        if rec.check('C16.wellformed.call', ok, lambda: 'scanning the result of %s raised %r' % (name, HM)):
            common.check_timelines(rec, 'C16.wellformed.timelines', H, HM, ctx=name)
            common.check_snapshots(rec, 'C16.wellformed.snapshots', H, HM, ctx=name, probes=HM._probes)
            common.check_stream(rec, 'C16.wellformed.stream', H, HM, ctx=name)
            battery = getattr(common, 'check_queries', None)
            if battery is not None:
                battery(rec, 'C16.wellformed.q', H, HM, list(H.nodes()), ctx=name, probes=HM._probes, light=True)
        # ---- the converted graph stays a usable graph
        ok, Hc = safe(thunk)
        if ok:
            okm, HMc = safe(common.scan_model, Hc, M.mentioned_instants())
            if okm:
                common.check_continuation(rec, 'C16.wellformed.continue', Hc, HMc, case, list(dict.fromkeys(nodes)), ctx=name, k=len(case['ops']))
        # ---- isolation
        ok, mid = safe(observe, G, nodes, probes)
        rec.check('C16.source_unchanged', ok and mid == before, lambda: '%s changed the source in %r' % (name, diff(before, mid) if ok else mid))
        try:
            for n in list(H.nodes()):
                mutate_nested(H._node[n])
            mutate_nested(H.graph)
            H.add_node('__fresh__', x=[1])
            big = max(probes) + 5
            H.add_interaction('__fresh__', '__fresh2__', big)
            for k, (u, v) in list(M.orient.items())[:2]:
                try:
                    H.add_interaction(u, v, big, big + 2)
                except Exception:
                    pass
        except Exception as ex:  # mutation helper itself must not decide anything
            rec.note('mutation of the result raised %s' % type(ex).__name__)
        ok, after = safe(observe, G, nodes, probes)
        rec.check('C16.isolation', ok and after == before,
                  lambda: 'mutating the result of %s changed the source in %r' % (name, diff(before, after) if ok else after))
    for c in d.classes:
        rec.classify(c)
    rec.classify(case['cls'])
    isolated = any(n not in {x for k in M.orient for x in M.orient[k]} for n in M.nodes)
    nested = any(has_nested(v) for a in M.nodes.values() for v in a.values()) or any(has_nested(v) for v in M.graph.values())
    if isolated:
        rec.classify('isolated node')
    if nested:
        rec.classify('nested attribute')
    if d.directed:
        differ = any((v, u) in M.orient and u != v and M.pres[(u, v)] != M.pres[(v, u)] for (u, v) in M.orient)
        if differ:
            rec.classify('reciprocal pair, different timelines')
        return differ and (isolated or nested)
    multi = any(len(M.runs(k)) >= 2 for k in M.orient)
    return multi and (isolated or nested)
