"""C10 - interaction-list files replay the event stream and round-trip presence."""
from collections import Counter

from hypothesis import strategies as st

from .. import gen
from ..drive import Driver
from ..gen import decode_node
from ..model import Ref
from . import common, iocommon
from .common import safe

ID = 'C10'
RULE = ('(a) reachable removal-enabled states of both classes (histories of 1-10 calls, int or safe-string ids) written '
        'with write_interactions over the delimiter x encoding x target space of C09: rows == the events of '
        'stream_interactions() in order as "u v op t"; read_interactions of the output has the same presence (all '
        'ordered pairs x probes) and the same stream (chronological, same events per instant; undirected pairs '
        'normalised). (b) generated well-formed event logs (1-3 pairs, per pair 1-3 segments of 1-3 \'+\' rows optionally '
        "closed by a '-', merged chronologically, endpoints flipped on undirected graphs) fed to parse_interactions and "
        "read_interactions: presence == the replay model ('+' at t -> {t}; '-' at t -> latest '+' .. t-1). "
        "non-trivial = a run of >= 2 instants closed by a '-' and >= 2 pairs.")
ASSUMPTIONS = ['e > t', 'logs are chronological and well formed (each \'-\' preceded by a \'+\' of the same pair, \'-\' later than that \'+\')',
               'node ids contain no delimiter, comment marker or whitespace; ASCII-only ids when encoding=ascii']
TECHNIQUE = 'round-trip PBT (write/read) and model replay of generated well-formed event logs'
BUDGET = {'quick': {'cases': 10000, 'seconds': 45}, 'thorough': {'cases': 300000, 'seconds': 540}}
KINDS = ['add', 'add', 'add', 'add', 'add', 'add_from', 'path', 'cycle', 'recip']
SHRINK_KEYS = ['ops', 'log']
TRIG = 'two_instant_run_from_two_points'


@st.composite
def event_log(draw, nn):
    npairs = draw(st.integers(1, 3))
    base = draw(st.sampled_from([0, 1, -7, 1000]))
    events = []
    used = set()
    for _ in range(npairs):
        ui, vi = draw(st.integers(0, nn - 1)), draw(st.integers(0, nn - 1))
        if (ui, vi) in used or (vi, ui) in used:
            continue
        used.add((ui, vi))
        cur = base + draw(st.integers(0, 4))
        for _seg in range(draw(st.integers(1, 3))):
            last = cur
            events.append([ui, vi, '+', cur])
            for _r in range(draw(st.integers(0, 2))):
                last = last + draw(st.integers(1, 3))
                events.append([ui, vi, '+', last])
            if draw(st.integers(0, 3)):
                m = last + draw(st.integers(1, 4))
                events.append([ui, vi, '-', m])
                cur = m + draw(st.integers(0, 3))
            else:
                cur = last + draw(st.integers(2, 4))
    flips = draw(st.lists(st.booleans(), min_size=len(events), max_size=len(events)))
    order = sorted(range(len(events)), key=lambda i: (events[i][3], i))
    return [events[i] + [flips[i]] for i in order]


def strategy(tier):
    hist = gen.tiered(tier, max_ops=10, rejects=False, kinds=KINDS, node_kinds=('int', 'safestr'), attrs=False)
    return st.tuples(hist, iocommon.IO_PARAMS).flatmap(
        lambda x: event_log(len(x[0]['nodes'])).map(lambda lg: dict(x[0], io=x[1], log=lg)))


def norm_stream(S, directed):
    out = {}
    for a, b, op, t in S:
        out.setdefault(t, Counter())[((a, b) if directed else frozenset((a, b)), op)] += 1
    return out


def run_case(case, rec):
    import dynetx as dn
    case = dict(case, nodes=iocommon.spaced_labels(case['nodes'], case['io']['delim']))
    d = Driver(case)
    for op in case.get('ops', []):
        r = d.step(op)
        if r['actual'] != r['expected']:
            rec.note('outcome_mismatch(left to C01)')
            return False
    G, M = d.G, d.M
    io_ = dict(case['io'])
    if io_['enc'] == 'ascii' and not iocommon.ascii_only(d.nodes):
        # unencodable ids: the write is attempted anyway (it must not disturb later writes), then utf-8 is used
        with iocommon.Scratch() as sc0:
            safe(iocommon.write_with, dn.write_interactions, G, sc0, io_['target'], delimiter=io_['delim'], encoding='ascii')
        rec.classify('unencodable write attempted first')
        io_['enc'] = 'utf-8'
    delim, enc, target = io_['delim'], io_['enc'], io_['target']
    nt = iocommon.nodetype_for(d.nodes, len(case['ops']))
    ctx = '%s delimiter=%r encoding=%s target=%s' % (case['cls'], delim, enc, target)
    rec.classify('target:' + target)
    nontrivial = False
    # ------------------------------------------------------------------ (a) write / read back
    oks, S = safe(lambda: list(G.stream_interactions()))
    if oks and case.get('ops'):
        with iocommon.Scratch() as sc:
            ok, out = safe(iocommon.write_with, dn.write_interactions, G, sc, target, delimiter=delim, encoding=enc)
            if rec.check('C10.write.call', ok, lambda: '%s write_interactions raised %r' % (ctx, out)):
                raw, reopen, target_ok = out
                # writing the same graph again (to memory) gives the same bytes: the writer keeps no state
                ok2, out2 = safe(iocommon.write_with, dn.write_interactions, G, sc, 'bytesio', delimiter=delim, encoding=enc)
                rec.check('C10.write.stable', ok2 and out2[0] == raw, lambda: '%s: a second write gave different bytes: %r vs %r' % (ctx, out2[0][:120] if ok2 else out2, raw[:120]))
                rec.check('C10.target', target_ok, lambda: '%s: wrong magic bytes / file object closed by the writer' % ctx)
                okd, rows = iocommon.decode_rows(raw, enc, delim)
                exp_rows = [[str(a), str(b), op, str(t)] for a, b, op, t in S]
                rec.check('C10.rows', okd and rows == exp_rows, lambda: '%s rows %r, stream %r' % (ctx, rows, exp_rows))
                okr, H = safe(lambda: dn.read_interactions(reopen(), directed=d.directed, nodetype=nt, timestamptype=int,
                                                           delimiter=delim, encoding=enc))
                if rec.check('C10.read.call', okr, lambda: '%s read_interactions raised %r (stream %r)' % (ctx, H, S)):
                    rec.check('C10.roundtrip.class', type(H) is type(G), lambda: '%s read back as %r' % (ctx, type(H)))
                    # presence; a listed unclosed two-instant run cannot survive (its second instant is not in the log)
                    unclosed = [(k, r) for k in M.orient for r in M.runs(k)
                                if r[1] - r[0] == 1 and r[1] in M.point_closed.get(k, ()) and
                                not any(M.key(a, b) == k and op == '-' and t == r[1] + 1 for a, b, op, t in S)]
                    if unclosed:
                        M2 = M.copy()
                        for k, r in unclosed:
                            M2.pres[k].discard(r[1])
                        rec.classify('graph with a listed unclosed two-instant run')
                        from ..runner import Recorder
                        probe = Recorder('C10', rec.known, rec.all_known)
                        probe.begin(case)
                        good = common.check_presence(probe, 'C10.roundtrip', H, M2, d.nodes, ctx=ctx)
                        rec.check('C10.roundtrip.has@t', False if good else True,
                                  lambda: '%s: read-back graph lost instant(s) %r of unclosed run(s) (stream %r)' % (ctx, unclosed, S),
                                  known=TRIG) if good else common.check_presence(rec, 'C10.roundtrip', H, M, d.nodes, ctx=ctx)
                    else:
                        common.check_presence(rec, 'C10.roundtrip', H, M, d.nodes, ctx=ctx)
                    okh, HS = safe(lambda: list(H.stream_interactions()))
                    good = okh and norm_stream(HS, d.directed) == norm_stream(S, d.directed) and \
                        all(HS[i][3] <= HS[i + 1][3] for i in range(len(HS) - 1))
                    rec.check('C10.roundtrip.stream', good, lambda: '%s stream read back %r, written %r' % (ctx, HS, S))
        if len(M.orient) >= 2 and any(r[1] > r[0] and (M.key(a, b), op, t) == (k, '-', r[1] + 1)
                                       for k in M.orient for r in M.runs(k) for a, b, op, t in S):
            nontrivial = True
    # ------------------------------------------------------------------ (b) generated logs
    log = case.get('log') or []
    if log:
        R = Ref(d.directed, True)
        latest = {}
        lines = []
        for ui, vi, op, t, flip in log:
            u, v = d.nodes[ui % len(d.nodes)], d.nodes[vi % len(d.nodes)]
            key = R.key(u, v)
            if op == '+':
                R.apply_add(u, v, t)
                latest[key] = t
            else:
                if key not in latest or t <= latest[key]:
                    continue            # keep the log well formed after shrinking
                R.apply_add(u, v, latest[key], t)
            a, b = (v, u) if (flip and not d.directed) else (u, v)
            lines.append(delim.join([str(a), str(b), op, str(t)]) + '\n')
        lctx = '%s log %r' % (ctx, lines)
        okp, P = safe(lambda: dn.parse_interactions(lines, directed=d.directed, nodetype=nt, timestamptype=int, delimiter=delim))
        if rec.check('C10.replay.call', okp, lambda: '%s parse_interactions raised %r' % (lctx, P)):
            common.check_presence(rec, 'C10.replay', P, R, d.nodes, ctx=lctx)
            common.check_timelines(rec, 'C10.replay.timelines', P, R, ctx=lctx)
        with iocommon.Scratch() as sc:
            p = sc.path('log.txt')
            with open(p, 'wb') as f:
                f.write(''.join(lines).encode(enc))
            okp, P2 = safe(lambda: dn.read_interactions(p, directed=d.directed, nodetype=nt, timestamptype=int, delimiter=delim, encoding=enc))
            if rec.check('C10.replay.call', okp, lambda: '%s read_interactions raised %r' % (lctx, P2)):
                common.check_presence(rec, 'C10.replay', P2, R, d.nodes, ctx=lctx + ' (file)')
        if len(R.orient) >= 2 and any(r[1] > r[0] for k in R.orient for r in R.runs(k)) and any(x[2] == '-' for x in log):
            nontrivial = True
        rec.classify('log rows: %d' % min(len(lines), 12))
    for c in d.classes:
        rec.classify(c)
    return nontrivial
