"""C18 - readers skip noise rows; timestamp compaction is an order-preserving bijection."""
import itertools

from hypothesis import strategies as st

from .. import gen
from ..drive import Driver, elements
from ..observe import observe, diff
from . import common, iocommon
from .c10 import event_log
from .common import safe

ID = 'C18'
RULE = ('Line sequences from a row grammar: valid 3/4-column snapshot rows (from an accepted history) or valid '
        "interaction rows (from a well-formed event log), each optionally decorated with surrounding whitespace and a "
        'trailing comment, interleaved with blank lines, whitespace-only lines, comment-only lines, short rows (1-2 fields; '
        '3 or 5 fields for interaction files); delimiter in {None, space, tab, \',\', \';\', \'|\'}, comment marker in '
        "{'#', '%', '//'} (never inside a field). Oracles: observe(parse(noisy)) == observe(parse(valid rows alone)) "
        '(nodes, timelines, ids, counts, stream, presence); one unconvertible node/timestamp field raises exactly '
        'TypeError; compact_timeslot on drawn integer sets (and exhaustively on all subsets of a 6-element pool, every '
        'input order class) is a strictly increasing bijection onto 0..k-1; read_*(file, keys=True) == parse_*(rows '
        'with timestamps replaced by their rank among the distinct timestamps of the file) for 3- and 4-column snapshot '
        'files and interaction files (blank / comment noise included), and for two files larger than 1 MiB. non-trivial = >= 2 valid rows, noise lines of '
        '>= 2 different kinds and >= 1 trailing comment.')
ASSUMPTIONS = ['e > t', 'fields contain no delimiter, comment marker or whitespace', 'rows with more than 4 columns in snapshot '
               'files are not generated (the statement does not say how they are read)',
               'keys=True is exercised on plain utf-8 files given by path (read_ids re-opens path.name as text)']
TECHNIQUE = 'grammar-based PBT (noisy vs clean rows), exhaustive compaction sweep, coverage-guided fuzzing (atheris) with a semantic oracle in the thorough tier'
BUDGET = {'quick': {'cases': 8000, 'seconds': 45}, 'thorough': {'cases': 120000, 'seconds': 540}}
KINDS = ['add', 'add', 'add', 'add', 'add', 'add_from', 'path']
SHRINK_KEYS = ['noise', 'ops', 'log']

DELIMS = [None, None, ' ', '\t', ',', ';', '|']
COMMENTS = ['#', '#', '%', '//']
NOISE_KINDS = ['blank', 'ws', 'comment', 'comment_ws', 'short1', 'short2', 'wrongcols']

NOISE = st.lists(st.tuples(st.integers(0, 40), st.sampled_from(NOISE_KINDS)), max_size=6)
DECOR = st.lists(st.tuples(st.booleans(), st.sampled_from(['', '', ' ', '  ', '\t']), st.sampled_from(['', '', ' ']),
                           st.sampled_from(['', '', '', 'zero', 'plus'])), min_size=12, max_size=12)
# arbitrary order; small values, wide values, and clusters of huge neighbours (beyond 2**53, where floats collide)
INTSETS = st.one_of(st.lists(st.integers(-10 ** 6, 10 ** 9) | st.integers(-20, 20), max_size=40, unique=True),
                    st.lists(st.integers(0, 400).map(lambda k: 1700000000000000000 + k) | st.integers(-3, 3).map(lambda k: -(2 ** 62) + k),
                             max_size=12, unique=True))


class StrictInt(int):
    """An int type that converts canonical and signed decimal strings like int() and refuses everything else
    with a LookupError (converter types need not raise ValueError)."""

    def __new__(cls, s):
        if isinstance(s, str) and not s.strip().lstrip('+-').isdigit():
            raise LookupError('not an integer: %r' % (s,))
        return int.__new__(cls, s)


def strategy(tier):
    hist = gen.tiered(tier, max_ops=8, rejects=False, kinds=KINDS, node_kinds=('int', 'safestr'), attrs=False,
                       bases=[0, 0, 0, 1, -7, 1000, 2 ** 63 - 4, -(2 ** 63) - 40])
    return st.tuples(hist, st.sampled_from(DELIMS), st.sampled_from(COMMENTS), NOISE, DECOR, INTSETS,
                     st.sampled_from(['snap', 'snap', 'inter']), st.tuples(st.integers(0, 30), st.sampled_from(['node', 'time', 'e']))
                     ).flatmap(lambda x: event_log(len(x[0]['nodes'])).map(
                         lambda lg: dict(x[0], delim=x[1], comment=x[2], noise=[list(n) for n in x[3]],
                                         decor=[list(z) for z in x[4]], ints=x[5], fmt=x[6], bad=list(x[7]), log=lg)))


def exhaustive(tier):
    pool = [-5, -1, 0, 3, 4, 10 ** 9]
    big = [2 ** 60 + 1, 2 ** 60 + 2, 2 ** 60 + 3, -(2 ** 60) - 1, -(2 ** 60) - 2]
    cases = []
    for r in range(0, 7):
        for sub in itertools.combinations(pool, r):
            for order in ('asc', 'desc', 'rot'):
                cases.append({'only': 'compact', 'ints': list(sub), 'order': order})
    for r in range(2, 6):
        for sub in itertools.permutations(big, r):
            cases.append({'only': 'compact', 'ints': list(sub), 'order': 'asc'})
    # keys=True on files of more than 1 MiB (buffered / block-wise pre-passes over the file), every tier
    for fmt, cls in (('snap', 'DynGraph'), ('inter', 'DynDiGraph')):
        cases.append({'only': 'hugekeys', 'fmt': fmt, 'cls': cls})
    return {'cases': cases, 'bound': 'all 64 subsets of {-5,-1,0,3,4,10^9} x 3 input orders, and every ordered selection of 2-5 of five neighbours of +-2^60, for compact_timeslot; '
            'two keys=True reads of files larger than 1 MiB (22000 rows with sparse 6-digit timestamps)'}


def huge_keys(case, rec):
    """read_*(path, keys=True) on a file of > 1 MiB == parse of the same rows with ranked timestamps."""
    import dynetx as dn
    fmt, directed = case['fmt'], case['cls'] == 'DynDiGraph'
    names = ['station_%s_%02d' % ('abcdefghijklmnopqrstuvwx'[i % 24] * 14, i) for i in range(30)]
    rows, ranked = [], []
    n = 22000
    for i in range(n):
        u, v = names[i % 30], names[(i * 7 + 1 + i // 30) % 30]
        t = 100003 + 37 * i
        if fmt == 'snap':
            rows.append('%s %s %d\n' % (u, v, t))
            ranked.append('%s %s %d\n' % (u, v, i))
        else:
            rows.append('%s %s + %d\n' % (u, v, t))
            ranked.append('%s %s + %d\n' % (u, v, i))
    blob = ''.join(rows).encode('utf-8')
    rec.check('C18.keys.huge.size', len(blob) > (1 << 20) + 4096, 'generated file has only %d bytes' % len(blob))
    parse = dn.parse_snapshots if fmt == 'snap' else dn.parse_interactions
    reader = dn.read_snapshots if fmt == 'snap' else dn.read_interactions
    okr, Rk = safe(parse, ranked, directed=directed, nodetype=str, timestamptype=int)
    with iocommon.Scratch() as sc:
        p = sc.path('k_huge.txt')
        with open(p, 'wb') as f:
            f.write(blob)
        okk, K = safe(lambda: reader(p, directed=directed, nodetype=str, timestamptype=int, keys=True))
    ctx = '%s %s file of %d rows / %d bytes' % (case['cls'], fmt, n, len(blob))
    if rec.check('C18.keys.huge', okk and okr, lambda: '%s: read(keys=True) raised %r / ranked rows %r' % (ctx, K, Rk)):
        ok, (o1, o2) = safe(lambda: (observe(K, names[:6], [0, 1, 2, 17475, 17476, 17477, n - 2, n - 1, n]),
                                     observe(Rk, names[:6], [0, 1, 2, 17475, 17476, 17477, n - 2, n - 1, n])))
        rec.check('C18.keys.huge', ok and o1 == o2, lambda: '%s: keys=True differs from the ranked rows in %r' % (ctx, diff(o1, o2) if ok else o1))
    rec.classify('keys: file > 1 MiB')
    return True


def check_compact(rec, ints, ctx=''):
    import dynetx as dn
    for name, arg in (('list', list(ints)), ('keys', {x: None for x in ints}.keys()), ('set', set(ints))):
        ok, m = safe(dn.compact_timeslot, arg)
        srt = sorted(set(ints))
        good = ok and isinstance(m, dict) and set(m) == set(ints) and [m[x] for x in srt] == list(range(len(srt)))
        rec.check('C18.compact', good, lambda: '%s compact_timeslot(%s %r) = %r' % (ctx, name, list(ints), m))


def noise_line(kind, delim, comment, i):
    d = ' ' if delim is None else delim
    if kind == 'blank':
        return '\n'
    if kind == 'ws':
        return '   \t \n' if i % 2 else ' \n'
    if kind == 'comment':
        return comment + ' a comment 1 2 3\n'
    if kind == 'comment_ws':
        return '  ' + comment + 'x' + d + 'y' + d + '7\n'
    if kind == 'short1':
        return 'lonely\n'
    if kind == 'short2':
        return 'a' + d + 'b\n'
    return None


def build(case, d, accepted):
    """Returns (noisy_lines, clean_lines, parse function name, meta)."""
    delim, comment, fmt = case['delim'], case['comment'], case['fmt']
    dl = ' ' if delim is None else delim
    rows = []
    if fmt == 'snap':
        for (u, v, t, e) in accepted:
            rows.append([str(u), str(v), str(t)] + ([str(e)] if e is not None else []))
    else:
        latest = {}
        for ui, vi, op, t, flip in case.get('log') or []:
            u, v = d.nodes[ui % len(d.nodes)], d.nodes[vi % len(d.nodes)]
            key = d.M.key(u, v)
            if op == '+':
                latest[key] = t
            elif key not in latest or t <= latest[key]:
                continue
            rows.append([str(u), str(v), op, str(t)])
    clean = [dl.join(r) + '\n' for r in rows]
    noisy = []
    tags = []
    trailing = 0
    spelled = 0
    for i, r in enumerate(rows):
        dec = case['decor'][i % len(case['decor'])]
        tc, lead, trail = dec[0], dec[1], dec[2]
        spell = dec[3] if len(dec) > 3 else ''
        if delim == '\t':
            lead = lead.replace('\t', ' ')
        r = list(r)
        if spell:
            # the same integer written differently ('07', '+7', '-03'): equal as a number, so it must be
            # read, and ranked with keys=True, exactly like its canonical spelling
            for col in ((2, 3) if fmt == 'snap' else (3,)):
                if col < len(r):
                    n = int(r[col])
                    if spell == 'zero':
                        r[col] = ('-0%d' % -n) if n < 0 else ('0%d' % n)
                    elif n >= 0:
                        r[col] = '+%d' % n
            spelled += 1
        line = lead + dl.join(r) + trail
        if tc:
            line += comment + ' trailing' + dl + '9' + dl + '9' + dl + '9'
            trailing += 1
        noisy.append(line + '\n')
        tags.append('row')
    kinds = set()
    for pos, kind in sorted(case['noise'], key=lambda x: x[0]):
        if kind == 'wrongcols':
            if fmt == 'snap':
                continue
            ln = dl.join(['a', 'b', '+']) + '\n' if pos % 2 else dl.join(['a', 'b', '+', '3', 'extra']) + '\n'
        else:
            ln = noise_line(kind, delim, comment, pos)
        noisy.insert(min(pos, len(noisy)), ln)
        tags.insert(min(pos, len(tags)), kind)
        kinds.add(kind)
    return noisy, clean, rows, {'trailing': trailing, 'kinds': kinds, 'tags': tags, 'spelled': spelled}


def run_case(case, rec):
    import dynetx as dn
    if case.get('only') == 'compact':
        ints = case['ints']
        if case['order'] == 'desc':
            ints = ints[::-1]
        elif case['order'] == 'rot' and ints:
            ints = ints[1:] + ints[:1]
        check_compact(rec, ints, 'exhaustive')
        return len(ints) >= 2
    if case.get('only') == 'hugekeys':
        return huge_keys(case, rec)
    if case.get('only') == 'fuzz':
        for sub, detail in fuzz_oracle(bytes.fromhex(case['hex'])):
            rec.check(sub, False, detail)
        rec.check('C18.fuzz.replayed', True)
        return False
    case = dict(case, nodes=iocommon.spaced_labels(case['nodes'], case['delim'], line_boundaries=False))
    d = Driver(case)
    accepted = []
    for op in case['ops']:
        r = d.step(op)
        if r['actual'] != r['expected']:
            rec.note('outcome_mismatch(left to C01)')
            return False
        accepted.extend(elements(op, d.nodes)[:r['applied']])
    delim, comment, fmt = case['delim'], case['comment'], case['fmt']
    nt = iocommon.nodetype_for(d.nodes, len(case['ops']))
    noisy, clean, rows, meta = build(case, d, accepted)
    parse = dn.parse_snapshots if fmt == 'snap' else dn.parse_interactions
    kw = dict(comments=comment, directed=d.directed, delimiter=delim, nodetype=nt, timestamptype=int)
    ctx = '%s %s delimiter=%r comment=%r' % (case['cls'], fmt, delim, comment)
    rec.classify('format:' + fmt)
    rec.classify('delimiter:%r' % (delim,))
    for k in meta['kinds']:
        rec.classify('noise:' + k)
    if meta['spelled']:
        rec.classify('timestamps with an alternative spelling')
    # ---- noise
    okc, C = safe(parse, list(clean), **kw)
    if not rec.check('C18.clean.call', okc, lambda: '%s parsing the valid rows %r raised %r' % (ctx, clean, C)):
        return False
    okn, N = safe(parse, list(noisy), **kw)
    if rec.check('C18.noise', okn, lambda: '%s parsing %r raised %r (valid rows alone parse fine)' % (ctx, noisy, N)):
        ok, (oc, on) = safe(lambda: (observe(C), observe(N)))
        rec.check('C18.noise', ok and oc == on, lambda: '%s noisy input %r gives a graph that differs from the valid rows %r in %r' % (
            ctx, noisy, clean, diff(oc, on) if ok else oc))
    # ---- unconvertible field
    if rows:
        pos, what = case['bad']
        i = pos % len(rows)
        badrow = list(rows[i])
        if what == 'node' and nt is int:
            badrow[pos % 2] = 'x' + badrow[pos % 2]
        elif what == 'e' and fmt == 'snap' and len(badrow) == 4:
            badrow[3] = 'seven'
        else:
            badrow[3 if fmt == 'inter' else 2] = '1.5x'
        dl = ' ' if delim is None else delim
        lines = list(noisy)
        lines.insert(min(pos, len(lines)), dl.join(badrow) + '\n')
        kwb = dict(kw)
        if (pos // 2) % 2:
            # converter *types* whose refusal is not a ValueError: still "an unconvertible field", still TypeError
            kwb['timestamptype'] = StrictInt
            if nt is int:
                kwb['nodetype'] = StrictInt
            rec.classify('unconvertible field with a converter type that raises LookupError')
        okb, B = safe(parse, lines, **kwb)
        rec.check('C18.type_error', (not okb) and type(B) is TypeError,
                  lambda: '%s row %r with an unconvertible field: got %r' % (ctx, badrow, B))
    # ---- compaction
    check_compact(rec, case['ints'], ctx)
    # ---- keys=True
    if rows:
        stamps = set()
        for r in rows:
            if fmt == 'snap':
                stamps.add(int(r[2]))
                if len(r) == 4:
                    stamps.add(int(r[3]))
            else:
                stamps.add(int(r[3]))
        rank = {t: i for i, t in enumerate(sorted(stamps))}
        ranked = []
        for r in rows:
            r2 = list(r)
            if fmt == 'snap':
                r2[2] = str(rank[int(r[2])])
                if len(r) == 4:
                    r2[3] = str(rank[int(r[3])])
            else:
                r2[3] = str(rank[int(r[3])])
            ranked.append((' ' if delim is None else delim).join(r2) + '\n')
        okr, Rk = safe(parse, ranked, **kw)
        reader = dn.read_snapshots if fmt == 'snap' else dn.read_interactions
        # decorated rows + blank / whitespace / comment lines (rows without a timestamp column of their
        # own are left out: the statement does not say whether they take part in the ranking)
        keyfile = [ln for ln, tg in zip(noisy, meta['tags']) if tg in ('row', 'blank', 'ws', 'comment', 'comment_ws')]
        with iocommon.Scratch() as sc:
            rows_only = [ln for ln, tg in zip(noisy, meta['tags']) if tg == 'row']
            for label, content in (('plain', clean), ('decorated', rows_only), ('noisy', keyfile)):
                p = sc.path('k_%s.txt' % label)
                with open(p, 'wb') as f:
                    f.write(''.join(content).encode('utf-8'))
                okk, K = safe(lambda: reader(p, comments=comment, directed=d.directed, delimiter=delim, nodetype=nt,
                                             timestamptype=int, keys=True))
                sub = 'C18.keys' if label == 'plain' else ('C18.keys.noise' if label == 'noisy' else 'C18.keys.decorated')
                if rec.check(sub, okk and okr, lambda: '%s read(keys=True) of %r raised %r / ranked rows %r' % (ctx, content, K, Rk)):
                    ok, (o1, o2) = safe(lambda: (observe(K), observe(Rk)))
                    rec.check(sub, ok and o1 == o2, lambda: '%s keys=True on %r differs from the ranked rows %r in %r' % (
                        ctx, content, ranked, diff(o1, o2) if ok else o1))
            # an unconvertible timestamp must raise TypeError with keys=True as well (the ranking pass
            # converts the timestamps before the parser does)
            pos, what = case['bad']
            badrow = list(rows[pos % len(rows)])
            badrow[3 if fmt == 'inter' else 2] = '1.5x'
            p = sc.path('k_bad.txt')
            with open(p, 'wb') as f:
                f.write((''.join(clean) + (' ' if delim is None else delim).join(badrow) + '\n').encode('utf-8'))
            okk, K = safe(lambda: reader(p, comments=comment, directed=d.directed, delimiter=delim, nodetype=nt, timestamptype=int, keys=True))
            rec.check('C18.keys.type_error', (not okk) and type(K) is TypeError,
                      lambda: '%s read(keys=True) of a file with the unconvertible timestamp row %r: got %r' % (ctx, badrow, K))
        if fmt == 'snap' and any(len(r) == 4 for r in rows):
            rec.classify('keys: 4-column rows')
    return len(rows) >= 2 and len(meta['kinds']) >= 2 and meta['trailing'] >= 1


# ======================================================================= byte-level fuzzing (thorough tier)
def _classify_lines(text, fmt, directed=False):
    """Independent reading of the statement: returns (clean_rows, in_domain, type_error_expected).
    Comment marker '#', whitespace delimiter.  Inputs the statement says nothing about (5+ columns in a
    snapshot file, e <= t, a '-' without an earlier '+', an op other than + / -) are out of domain."""
    rows = []
    type_err = False
    seen_plus = set()
    for line in text.split('\n'):
        i = line.find('#')
        if i >= 0:
            line = line[:i]
        f = line.split()
        if fmt == 'snap':
            if len(f) < 3:
                continue
            if len(f) > 4:
                return None, False, False
            try:
                t = int(f[2])
                e = int(f[3]) if len(f) == 4 else None
            except ValueError:
                type_err = True
                break
            if e is not None and e <= t:
                return None, False, False
            if abs(t) > 10 ** 6 or (e is not None and e - t > 64):
                return None, False, False     # keeps the oracle's instant scan (and the library's per-instant loops) bounded
            rows.append((f[0], f[1], t, e))
        else:
            if len(f) != 4:
                continue
            if f[2] not in ('+', '-'):
                return None, False, False
            try:
                t = int(f[3])
            except ValueError:
                type_err = True
                break
            if abs(t) > 10 ** 4:
                return None, False, False
            pk = (f[0], f[1]) if directed else frozenset((f[0], f[1]))
            if f[2] == '-' and pk not in seen_plus:
                return None, False, False
            seen_plus.add(pk)
            rows.append((f[0], f[1], f[2], t))
    return rows, True, type_err


def fuzz_oracle(data):
    """Returns a list of (sub-oracle, detail) failures for one fuzz input (bytes)."""
    import dynetx as dn
    from ..model import Ref
    if len(data) < 2:
        return []
    fmt = 'snap' if data[0] % 2 == 0 else 'inter'
    directed = bool(data[1] % 2)
    text = data[2:].decode('latin-1')
    if '\r' in text or '\x0b' in text or '\x0c' in text or '\x1c' in text or '\x1d' in text or '\x1e' in text or '\x85' in text:
        return []                       # exotic line/field separators: str.split() and the statement are silent
    rows, in_domain, type_err = _classify_lines(text, fmt, directed)
    if not in_domain:
        return []
    lines = [ln + '\n' for ln in text.split('\n')]
    parse = dn.parse_snapshots if fmt == 'snap' else dn.parse_interactions
    fails = []
    ok, G = safe(parse, lines, directed=directed, timestamptype=int)
    if type_err:
        if ok or type(G) not in (TypeError, ValueError):
            fails.append(('C18.fuzz.type_error', 'input %r: expected TypeError, got %r' % (data, G)))
        elif type(G) is ValueError and 'interaction extension' not in str(G):
            fails.append(('C18.fuzz.type_error', 'input %r: expected TypeError, got %r' % (data, G)))
        return fails
    # replay the valid rows on the model; a row may legitimately be rejected by the ordering rule
    M = Ref(directed, True)
    rejected = False
    latest = {}
    for r in rows:
        if fmt == 'snap':
            u, v, t, e = r
            if M.expected_outcome(u, v, t, e) != 'ok':
                rejected = True
                break
            M.apply_add(u, v, t, e)
        else:
            u, v, op, t = r
            k = M.key(u, v)
            if op == '+':
                if M.expected_outcome(u, v, t) != 'ok':
                    rejected = True
                    break
                M.apply_add(u, v, t)
                latest[k] = t
            else:
                lr = M.latest_run(k)
                if lr[1] < t:
                    M.apply_add(u, v, lr[1], t)
    if rejected:
        if ok or type(G) is not ValueError:
            fails.append(('C18.fuzz.rejection', 'input %r: a row starts before the latest run of its pair, got %r' % (data, G)))
        return fails
    if not ok:
        fails.append(('C18.fuzz.exception', 'input %r raised %r' % (data, G)))
        return fails
    clean = []
    for r in rows:
        clean.append(' '.join(str(x) for x in r if x is not None) + '\n')
    ok2, C = safe(parse, clean, directed=directed, timestamptype=int)
    if not ok2:
        fails.append(('C18.fuzz.exception', 'valid rows %r of input %r raised %r' % (clean, data, C)))
        return fails
    o1, o2 = observe(G), observe(C)
    if o1 != o2:
        fails.append(('C18.fuzz.noise', 'input %r differs from its valid rows %r in %r' % (data, clean, diff(o1, o2))))
    nodes = list(M.nodes)
    sparse = sorted({t + k for t in M.mentioned_instants() for k in (-1, 0, 1)})
    for u in nodes:
        for v in nodes:
            for t in sparse:
                if bool(G.has_interaction(u, v, t)) != M.present(u, v, t):
                    fails.append(('C18.fuzz.presence', 'input %r: has_interaction(%r, %r, %r) = %r, rows say %r' % (
                        data, u, v, t, G.has_interaction(u, v, t), M.present(u, v, t))))
                    return fails
    return fails


FUZZ_SEEDS = [b'\x00\x001 2 2\n1 2 3\n# c\n\n1 3 2 5\n', b'\x00\x01a b 0 4 # x\nb a 2\n  \nz\n', b'\x01\x001 2 + 2\n1 2 - 6\n1 2 + 7\n1 3 + 7\n1 2 - 15\n',
              b'\x01\x01a b + 0\nb a + 1 #t\na b - 4\nx\n']


def extra(tier, rec, seed, shard, nshards):
    """Thorough tier: coverage-guided campaign with atheris (libFuzzer) on the two line parsers."""
    import glob
    import os
    import subprocess
    import sys
    import tempfile
    if tier != 'thorough':
        return
    here = os.path.dirname(os.path.dirname(os.path.dirname(os.path.abspath(__file__))))
    try:
        sys.path.append(os.path.join(here, '.deps'))
        import atheris  # noqa: F401
    except Exception as ex:
        rec.note('atheris unavailable (%s): byte-level campaign skipped' % type(ex).__name__)
        return
    work = tempfile.mkdtemp(prefix='dxfuzz_')
    try:
        corpus = os.path.join(work, 'corpus')
        arts = os.path.join(work, 'artifacts') + os.sep
        os.makedirs(corpus)
        os.makedirs(arts)
        if shard % 2:
            for i, sd in enumerate(FUZZ_SEEDS):
                open(os.path.join(corpus, 'seed%d' % i), 'wb').write(sd)
            rec.classify('fuzz shard with seed corpus')
        else:
            rec.classify('fuzz shard with empty corpus')
        secs = int(os.environ.get('DXVERIF_FUZZ_SECONDS', '120'))
        env = dict(os.environ, PYTHONPATH=os.pathsep.join([here, os.path.join(here, '.deps')]))
        cmd = [sys.executable, '-B', '-m', 'dxverif.fuzz_c18', corpus, '-max_total_time=%d' % secs, '-seed=%d' % (seed % (2 ** 31) or 1),
               '-artifact_prefix=' + arts, '-max_len=160', '-print_final_stats=1', '-timeout=20']
        p = subprocess.run(cmd, cwd=here, env=env, stdout=subprocess.PIPE, stderr=subprocess.STDOUT, text=True, timeout=secs + 120)
        execs = 0
        for ln in p.stdout.splitlines():
            if 'stat::number_of_executed_units' in ln:
                execs = int(ln.split()[-1])
        rec.note('atheris executions', execs)
        rec.note('atheris corpus units', len(os.listdir(corpus)))
        from ..runner import run_one
        import importlib
        mod = importlib.import_module('dxverif.props.c18')
        for f in sorted(glob.glob(arts + '*')):
            data = open(f, 'rb').read()
            run_one(mod, {'only': 'fuzz', 'hex': data.hex()}, rec)
        if p.returncode not in (0, 1) and not glob.glob(arts + '*'):
            rec.note('atheris exited with %d without an artifact' % p.returncode)
    finally:
        import shutil
        shutil.rmtree(work, ignore_errors=True)
