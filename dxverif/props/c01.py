"""C01 - interaction presence is exactly the union of the spans that were added."""
from .. import gen
from ..drive import Driver, ADD_OPS
from . import common

ID = 'C01'
RULE = ('Hypothesis histories of 1-14 add_interaction / add_interactions_from / add_path / add_star / add_cycle '
        '(method and dn.* forms) / add_node calls on removal-enabled DynGraph and DynDiGraph, each span positioned '
        'relative to the latest run of its pair (start, inside, end, end+1, gap, identical, before); 14 fixed histories with a pair of '
        '65-300 runs; thorough adds the exhaustive single-pair sweep. After every call: outcome vs the documented rule and has_interaction over all '
        'ordered node pairs of the universe x every probe instant (range-2..range+2 and far values) vs the model. '
        'non-trivial = some accepted span was adjacent to, overlapping, contained in or identical to an earlier run of '
        'its pair; distinct = hash of the concrete call list.')
ASSUMPTIONS = ['vanishing times satisfy e > t (documented meaning); node ids are hashable, non-None, not float/bool',
               'timestamps are Python ints: base + offset, bases 0, 1, -7, -3, 1e3, -1e6, 1e9, 2^63-4, -2^63-40, 2^70, offsets 0..~14 (longer in the long-timeline cases); one history in five is played 10^4400 instants later or earlier']
TECHNIQUE = 'model-based PBT: Hypothesis call histories run in lock step against a reference model (presence = union of spans); exhaustive single-pair histories in the thorough tier'
BUDGET = {'quick': {'cases': 24000, 'seconds': 40}, 'thorough': {'cases': 400000, 'seconds': 540}}


def strategy(tier):
    return gen.tiered(tier, max_ops=14, kinds=gen.ADD_KINDS + ['add', 'add', 'missing_t'], shifts=True)


def exhaustive(tier):
    import itertools
    long_ = gen.very_long_cases()       # every tier: fourteen fixed histories with a pair of 65-300 runs
    if tier != 'thorough':
        return {'cases': long_, 'bound': '14 fixed very long histories (one pair with 65-300 runs)'}
    return {'cases': itertools.chain(long_, common.single_pair_histories()), 'bound': common.SINGLE_PAIR_BOUND + '; 14 fixed very long histories (one pair with 65-300 runs)'}


def run_case(case, rec):
    d = Driver(case)
    sched = common.observe_schedule(case)
    rec.classify('queries after: ' + sched)
    state = {'stop': False}

    def after(i, r):
        if state['stop']:
            return
        ok = rec.check('C01.outcome', r['actual'] == r['expected'],
                       lambda: 'op %d %r: expected %s, got %s (%r)' % (i, r['op'], r['expected'], r['actual'], r['exc']))
        if not ok:
            state['stop'] = True
            return
        if r['op'][0] in ADD_OPS and common.due(sched, i, len(case['ops']) - 1):
            common.check_presence(rec, 'C01', d.G, d.M, d.nodes, ctx='after op %d %r' % (i, r['op']))

    for i, op in enumerate(case['ops']):
        r = d.step(op)
        after(i, r)
        if state['stop']:
            break
    for c in d.classes:
        rec.classify(c)
    nt = bool(d.classes & {'adjacent', 'overlap_extend', 'contained', 'duplicate'})
    return nt
