"""C13 - no time-respecting path is missed."""
import itertools

from hypothesis import strategies as st

from ..drive import Driver
from . import pathcommon as pc
from .common import safe

ID = 'C13'
RULE = ('Graphs and queries as C12 (random) plus, in the thorough tier, every presence relation on 3 nodes x 3 instants '
        'without self-loops (undirected 2^9, directed a 1/4 sample of 2^18 by index) with every root. Oracle: brute-force '
        'DFS over hop sequences written from the statement (model presence only). time_respecting_paths(sample=1) == that '
        'set when u has an interaction at start (start omitted: always); empty when u has none; sample in {0.3, 0.7} gives '
        'a subset (numpy RNG seeded from the case); all_time_respecting_paths(start, end, min_t=m) == {(u, w): paths} over '
        'the nodes present at m; every other case the queried object is then emptied with clear(), refilled with the same history on rotated '
        'node names and asked again. non-trivial = the enumerated set has >= 2 paths, one of them with >= 2 hops.')
ASSUMPTIONS = ['e > t', "node ids are ints or '_'-free strings", 'windows lie inside [first id, last id]']
TECHNIQUE = 'PBT against a brute-force enumeration oracle written from the statement; exhaustive small universes (thorough)'
BUDGET = {'quick': {'cases': 8000, 'seconds': 50}, 'thorough': {'cases': 60000, 'seconds': 560}}
QUERIES = st.lists(pc.QUERY, min_size=3, max_size=3)
TRIG = 'root_selfloop_in_window'


def strategy(tier):
    return st.tuples(pc.graph_strategy(tier=tier), QUERIES, st.integers(0, 9), st.sampled_from([0.3, 0.7])).map(
        lambda x: dict(x[0], q=[list(q) for q in x[1]], mt=x[2], sample=x[3]))


def exhaustive(tier):
    if tier != 'thorough':
        return None
    return {'cases': pc.small_universe_cases(directed_step=4), 'bound': 'every undirected presence relation on 3 nodes x instants {0,1,2} without self-loops (511) and every '
            '4th directed one by bit index (65535), each with all roots u, v=None, and the windows [first,last], [first,first+1]'}


def as_set(res):
    out = set()
    if hasattr(res, 'items'):
        for k, pl in res.items():
            for p in pl:
                out.add(tuple(tuple(h) for h in p))
    return out


def compare(rec, sub, got, exp, O, u, start, end, ctx):
    """got/exp are sets of paths.  Listed finding: paths whose first hop is a self-loop on the root
    are lost when the root has a self-loop inside the window."""
    if got == exp:
        return rec.check(sub, True)
    missing, extra = exp - got, got - exp
    kn = None
    if not extra and O.root_selfloop_in_window(u, start, end) and all(p[0][0] == p[0][1] == u for p in missing):
        kn = TRIG
    return rec.check(sub, False, lambda: '%s: missing %r, unexpected %r' % (ctx, sorted(missing)[:4], sorted(extra)[:4]), known=kn)


def one_query(rec, al, G, O, M, u, v, start, end, cls, sample=None, seed=0):
    import numpy as np
    ctx = '%s time_respecting_paths(u=%r, v=%r, start=%r, end=%r)' % (cls, u, v, start, end)
    ok, res = safe(al.time_respecting_paths, G, u, v, start, end)
    if not rec.check('C13.call', ok, lambda: '%s raised %r' % (ctx, res)):
        return None
    got = as_set(res)
    if start is not None and not O.present_at(u, start):
        rec.check('C13.absent_root', len(res) == 0, lambda: '%s: u has no interaction at start but %r returned' % (ctx, res))
        rec.classify('root absent at start')
        return set()
    exp = O.enumerate(u, v, start, end)
    if exp is None:
        rec.note('enumeration limit hit (query skipped)')
        return None
    compare(rec, 'C13.equal', got, exp, O, u, start, end, ctx)
    if sample is not None and exp:
        np.random.seed(seed % (2 ** 32))
        ok, res2 = safe(al.time_respecting_paths, G, u, v, start, end, sample)
        if rec.check('C13.call', ok, lambda: '%s sample=%r raised %r' % (ctx, sample, res2)):
            g2 = as_set(res2)
            rec.check('C13.sample_subset', g2 <= exp, lambda: '%s sample=%r returned paths outside the full set: %r' % (ctx, sample, sorted(g2 - exp)[:4]))
            rec.classify('sampled call')
    return exp


def all_pairs(rec, al, G, O, M, start, end, m, cls):
    ctx = '%s all_time_respecting_paths(start=%r, end=%r, min_t=%r)' % (cls, start, end, m)
    ok, res = safe(al.all_time_respecting_paths, G, start, end, 1, m)
    if not rec.check('C13.call', ok, lambda: '%s raised %r' % (ctx, res)):
        return
    roots = list(M.nodes) if m is None else [n for n in M.nodes if n in M.nodes_at(m)]
    exp = {}
    kn_roots = set()
    for u in roots:
        if start is not None and not O.present_at(u, start):
            continue
        paths = O.enumerate(u, None, start, end)
        if paths is None:
            rec.note('enumeration limit hit (all-pairs skipped)')
            return
        if O.root_selfloop_in_window(u, start, end):
            kn_roots.add(u)
        for p in paths:
            exp.setdefault((u, p[-1][1]), set()).add(p)
    got = {}
    if hasattr(res, 'items'):
        for k, pl in res.items():
            got[k] = set(tuple(tuple(h) for h in p) for p in pl)
    if got == exp:
        rec.check('C13.all_pairs', True)
        return
    # modulo the listed finding
    ok_mod = True
    for k in set(got) | set(exp):
        g, e = got.get(k, set()), exp.get(k, set())
        if g == e:
            continue
        if (g - e) or k[0] not in kn_roots or not all(p[0][0] == p[0][1] == k[0] for p in (e - g)):
            ok_mod = False
    rec.check('C13.all_pairs', False, lambda: '%s: got keys %r, expected keys %r; differing %r' % (
        ctx, sorted(got, key=repr), sorted(exp, key=repr),
        [(k, sorted(got.get(k, set()) ^ exp.get(k, set()))[:3]) for k in sorted(set(got) | set(exp), key=repr) if got.get(k, set()) != exp.get(k, set())][:3]),
        known=TRIG if ok_mod else None)


def run_case(case, rec):
    import dynetx.algorithms as al
    d = Driver(case)
    half = len(case['ops']) // 2
    for i, op in enumerate(case['ops']):
        r = d.step(op)
        if r['actual'] != r['expected']:
            rec.note('outcome_mismatch(left to C01)')
            return False
        if i + 1 == half and len(case['ops']) % 2 == 1 and d.M.ids() and case.get('q'):
            # the same object is asked in the middle of its history too: an answer must not be remembered
            Oh = pc.PathOracle(d.M)
            u, v, start, end = pc.resolve(d.M, d.nodes, case['q'][-1])
            one_query(rec, al, d.G, Oh, d.M, u, v, start, end, case['cls'] + ' (mid-history)')
            rec.classify('queried mid-history too')
    G, M = d.G, d.M
    ids = M.ids()
    if not ids:
        return False
    O = pc.PathOracle(M)
    nontrivial = False
    if case.get('all_q'):
        for u in M.nodes:
            for (start, end) in {(None, None), (ids[0], min(ids[0] + 1, ids[-1]))}:
                exp = one_query(rec, al, G, O, M, u, None, start, end, case['cls'])
                if exp and len(exp) >= 2 and any(len(p) >= 2 for p in exp):
                    nontrivial = True
        all_pairs(rec, al, G, O, M, None, None, None, case['cls'])
        return nontrivial
    for qi, q in enumerate(case['q']):
        u, v, start, end = pc.resolve(M, d.nodes, q)
        exp = one_query(rec, al, G, O, M, u, v, start, end, case['cls'], sample=case.get('sample') if qi == 0 else None,
                        seed=hash((qi, case.get('mt', 0), len(case['ops']))))
        if exp and len(exp) >= 2 and any(len(p) >= 2 for p in exp):
            nontrivial = True
        if exp is not None:
            rec.classify('enumerated paths: %s' % ('0' if not exp else '1' if len(exp) == 1 else '2-9' if len(exp) < 10 else '10+'))
        if qi == 0:
            mt = [None] + ids
            all_pairs(rec, al, G, O, M, start, end, mt[case.get('mt', 0) % len(mt)], case['cls'])
    # the same object emptied with clear() and refilled with the same history on rotated node names (same number of
    # nodes, same per-snapshot counts, different interactions): nothing of the first life may be remembered
    if len(case['ops']) % 2 == 0 and len(case['nodes']) >= 2:
        ok, _ = safe(G.clear)
        if ok:
            d2 = Driver(dict(case, nodes=case['nodes'][1:] + case['nodes'][:1]))
            d2.G = G
            good = all(d2.step(op)['actual'] == 'ok' or op[0] not in ('add', 'add_from', 'path', 'star', 'cycle', 'tpath') for op in case['ops'])
            if good and d2.M.ids():
                O2 = pc.PathOracle(d2.M)
                u, v, start, end = pc.resolve(d2.M, d2.nodes, case['q'][0])
                one_query(rec, al, G, O2, d2.M, u, v, start, end, case['cls'] + ' (object cleared and refilled on rotated node names)')
                rec.classify('re-queried after clear() and refill')
    for c in d.classes:
        rec.classify(c)
    return nontrivial
