"""C03 - timelines are canonical: sorted, disjoint, non-adjacent closed intervals."""
import copy
import json

from hypothesis import strategies as st

from .. import gen
from ..drive import Driver, ADD_OPS
from . import common
from .common import safe

ID = 'C03'
RULE = ('Histories as C01 (rejections included) on removal-enabled graphs of both classes. After every accepted call '
        'the timelines exposed by interactions() / in_interactions() / out_interactions() (t omitted, also per-node '
        'nbunch on DynGraph) are checked for shape, strict order with gaps, union == model presence and symmetry. From '
        'the final state every derived constructor is run (time_slice on two drawn windows, to_directed, '
        'to_undirected(reciprocal F/T), parse_snapshots(generate_snapshots), parse_interactions(generate_interactions), '
        'node_link_graph(node_link_data)) and the same oracles are applied to the result against its own has_interaction '
        'scan. non-trivial = some pair has >= 2 runs and some accepted span merged into an existing run.')
ASSUMPTIONS = ['e > t', 'file-format constructors are exercised only when node ids are ints or whitespace/#-free strings']
TECHNIQUE = 'model-based PBT + invariant checking of every derived constructor against its own presence scan'
BUDGET = {'quick': {'cases': 16000, 'seconds': 40}, 'thorough': {'cases': 500000, 'seconds': 540}}

WINDOWS = st.lists(st.tuples(st.integers(-2, 12), st.integers(0, 8)), min_size=2, max_size=2)


def strategy(tier):
    return st.tuples(gen.tiered(tier, max_ops=12, shifts=True), WINDOWS).map(lambda x: dict(x[0], win=[list(w) for w in x[1]]))


def exhaustive(tier):
    import itertools
    long_ = gen.very_long_cases()       # every tier: fourteen fixed histories with a pair of 65-300 runs
    if tier != 'thorough':
        return {'cases': long_, 'bound': '14 fixed very long histories (one pair with 65-300 runs)'}
    return {'cases': itertools.chain(long_, common.single_pair_histories()), 'bound': common.SINGLE_PAIR_BOUND + '; 14 fixed very long histories (one pair with 65-300 runs)'}


def derived(G, M, nodes, wins, printable=True):
    """Yield (name, thunk) for every derived constructor applicable to G."""
    import dynetx as dn
    from dynetx.readwrite import json_graph
    inst = M.mentioned_instants()
    lo = min(inst) if inst else 0
    for off, ln in wins:
        a, b = lo + off, lo + off + ln
        yield ('time_slice(%d,%d)' % (a, b) if printable else 'time_slice(first+%d,first+%d)' % (off, off + ln)), (lambda a=a, b=b: G.time_slice(a, b))
    if G.is_directed():
        yield 'to_undirected', (lambda: G.to_undirected())
        yield 'to_undirected(reciprocal)', (lambda: G.to_undirected(reciprocal=True))
    else:
        yield 'to_directed', (lambda: G.to_directed())
    if not printable:       # timestamps beyond the int -> str limit cannot be written to text or JSON at all
        return
    # the text formats cannot tell 1 from '1': only universes of one id type go through them
    if common.simple_ids(G.nodes()) and len({type(n) for n in G.nodes()}) <= 1:
        nt = int if all(type(n) is int for n in G.nodes()) else None
        yield 'parse_snapshots', (lambda: dn.parse_snapshots(list(dn.generate_snapshots(G)), directed=G.is_directed(),
                                                           nodetype=nt, timestamptype=int))
        yield 'parse_interactions', (lambda: dn.parse_interactions(list(dn.generate_interactions(G)),
                                                                 directed=G.is_directed(), nodetype=nt,
                                                                 timestamptype=int))
    if common.json_ids(G.nodes()):
        yield 'node_link_graph', (lambda: json_graph.node_link_graph(json.loads(json.dumps(json_graph.node_link_data(G)))))
    else:
        yield 'node_link_graph', (lambda: json_graph.node_link_graph(copy.deepcopy(json_graph.node_link_data(G))))


def run_case(case, rec):
    d = Driver(case)
    sched = common.observe_schedule(case)
    rec.classify('queries after: ' + sched)
    stop = False
    for i, op in enumerate(case['ops']):
        r = d.step(op)
        if r['actual'] != r['expected']:
            rec.note('outcome_mismatch(left to C01)')
            stop = True
            break
        if op[0] in ADD_OPS and r['actual'] == 'ok' and common.due(sched, i, len(case['ops']) - 1):
            common.check_timelines(rec, 'C03', d.G, d.M, ctx='after op %d %r' % (i, op))
    for c in d.classes:
        rec.classify(c)
    if not stop and 'win' in case:
        for name, thunk in derived(d.G, d.M, d.nodes, case['win'], printable=not d.shift):
            ok, H = safe(thunk)
            if not rec.check('C03.derived.call', ok, lambda: '%s raised %r' % (name, H)):
                continue
            ok, HM = safe(common.scan_model, H, d.M.mentioned_instants())
            if not rec.check('C03.derived.call', ok, lambda: 'scanning %s raised %r' % (name, HM)):
                continue
            common.check_timelines(rec, 'C03.derived', H, HM, ctx=name)
            rec.classify('derived:' + name.split('(')[0])
    multi = any(len(d.M.runs(k)) >= 2 for k in d.M.orient)
    merged = bool(d.classes & {'adjacent', 'overlap_extend', 'contained', 'duplicate'})
    return multi and merged
