"""C14 - annotate_paths selects exactly the optimal paths for each criterion."""
import itertools

from hypothesis import strategies as st

from .common import safe

ID = 'C14'
RULE = ('Non-empty lists of 1-8 paths between one node pair generated directly (1-4 hops, times from a 9-value range so '
        'that length, duration and arrival tie; duplicates; any order; paths given as tuples or lists of hop tuples), plus '
        'exhaustively every multiset of 1-4 paths from a 12-path pool and every ordered selection of 2-3 of six paths of 300-600 hops; node ids incl. '
        'objects equal only to themselves. Oracle: a 10-line brute force (min, then filter): the '
        "five criteria as set equalities over hop sequences, every returned path is an input path, each key holds a list, "
        'path_length == hop count and path_duration == last time - first time for every input path. '
        'non-trivial = >= 3 paths with a tie in one criterion and different winners for two criteria.')
ASSUMPTIONS = ['all paths of a list connect the same ordered node pair and have strictly increasing integer times']
TECHNIQUE = 'PBT against a brute-force (min-then-filter) oracle; exhaustive multisets from a path pool'
BUDGET = {'quick': {'cases': 20000, 'seconds': 40}, 'thorough': {'cases': 1000000, 'seconds': 500}}
SHRINK_KEYS = ['paths']
SHRINK_MIN = {'paths': 1}

NODES = ['S', 'a', 'b', 'c', 'T']


@st.composite
def one_path(draw, mids_pool, base, scale, minhops=1):
    n = draw(st.integers(minhops, 4))
    t0 = draw(st.integers(0, 5))
    times = [t0]
    for _ in range(n - 1):
        times.append(times[-1] + draw(st.integers(1, 3)))
    if scale > 1:
        # huge spans with near-ties: durations around 1e9..1e10 that differ by one unit
        times = [t * scale + draw(st.integers(0, 1)) * (i > 0) for i, t in enumerate(times)]
        times = [times[0]] + [max(times[i], times[i - 1] + 1) for i in range(1, len(times))]
        for i in range(1, len(times)):
            times[i] = max(times[i], times[i - 1] + 1)
    times = [t + base for t in times]
    mids = [draw(st.sampled_from(mids_pool)) for _ in range(n - 1)]
    seq = ['S'] + mids + ['T']
    return [[seq[i], seq[i + 1], times[i]] for i in range(n)]


@st.composite
def path_list(draw):
    mids_pool = draw(st.sampled_from([['a', 'b', 'c'], ['a', 'b', 'c'], [-1, -2, 3], [0, -1, -2], [1, '1', 2], ['7', 7, 'a'],
                                      [{"obj": 0}, {"obj": 1}, {"obj": 2}], [{"obj": 3}, 'a', {"tuple": [1, 2]}]]))
    base = draw(st.sampled_from([0, 0, 0, -2, -5, -1, 10 ** 9, 2 ** 63 - 2, -(2 ** 63) - 3, 2 ** 70]))
    # scales: hop-to-hop gaps of 1-3 units, of ~1e9, or of ~2^62 / 2^63 (durations on both sides of the signed 64-bit
    # limit, one unit apart); with the huge scales half of the lists have multi-hop paths only, so that *every*
    # duration of the list is huge
    scale = draw(st.sampled_from([1, 1, 1, 1, 10 ** 9, 2 ** 63 - 1, 2 ** 62]))
    minhops = 2 if scale > 10 ** 9 and draw(st.booleans()) else 1
    return draw(st.lists(one_path(mids_pool, base, scale, minhops), min_size=1, max_size=8))


def strategy(tier):
    return st.tuples(path_list(), st.booleans(), st.integers(0, 3)).map(
        lambda x: {'paths': x[0] + ([x[0][0]] if x[2] == 0 else []), 'as_list': x[1]})


POOL = [
    [['S', 'T', 0]], [['S', 'T', 2]], [['S', 'T', 5]],
    [['S', 'a', 0], ['a', 'T', 1]], [['S', 'a', 0], ['a', 'T', 4]], [['S', 'b', 1], ['b', 'T', 2]], [['S', 'b', 3], ['b', 'T', 5]],
    [['S', 'a', 0], ['a', 'b', 1], ['b', 'T', 2]], [['S', 'a', 1], ['a', 'b', 3], ['b', 'T', 6]], [['S', 'c', 2], ['c', 'a', 3], ['a', 'T', 4]],
    [['S', 'a', 0], ['a', 'b', 1], ['b', 'c', 2], ['c', 'T', 3]], [['S', 'c', 0], ['c', 'b', 2], ['b', 'a', 5], ['a', 'T', 7]],
]
POOL2 = [
    [['S', 'T', -1]], [['S', 'T', -2]], [['S', -1, -3], [-1, 'T', -1]], [['S', -2, -3], [-2, 'T', -1]], [['S', -1, -3], [-1, 'T', -2]],
    [['S', 'a', 0], ['a', 'T', 2000000000]], [['S', 'b', 0], ['b', 'T', 2000000001]], [['S', 'a', 0], ['a', 'b', 5], ['b', 'T', 2000000000]],
    [['S', 'a', -2], ['a', 'T', -1]], [['S', 'a', -1], ['a', 'T', 0]],
    [['S', 1, -3], [1, 'T', -1]], [['S', '1', -3], ['1', 'T', -1]],
]


# long paths: (hops, first time, step).  Hop counts, durations and arrival times beyond 256 (ints that are not
# cached objects) with ties in every criterion: A/B/C tie in length, A/B and D/F in duration, A/F and B/D in arrival
LONG = [(300, 0, 1), (300, 1, 1), (300, 0, 2), (301, 0, 1), (301, -1, 1), (600, 0, 1)]


def long_path(k):
    hops, t0, step = LONG[k]
    seq = ['S'] + [1000 * (k + 1) + j for j in range(hops - 1)] + ['T']
    return [[seq[j], seq[j + 1], t0 + step * j] for j in range(hops)]


def exhaustive(tier):
    def cases():
        for r in (2, 3):
            for combo in itertools.permutations(range(len(LONG)), r):
                yield {'long': list(combo), 'as_list': (sum(combo) % 2 == 0)}
        for k in (1, 2, 3, 4):
            for combo in itertools.combinations_with_replacement(range(len(POOL)), k):
                yield {'paths': [POOL[i] for i in combo], 'as_list': (sum(combo) % 2 == 0)}
        for k in (1, 2, 3):
            for combo in itertools.product(range(len(POOL2)), repeat=k):      # ordered: the input order matters for tie handling
                yield {'paths': [POOL2[i] for i in combo], 'as_list': (sum(combo) % 2 == 1)}
    return {'cases': cases(), 'bound': 'every ordered selection of 2-3 of six paths of 300-600 hops (150 lists; hop counts, durations and arrival times above 256 with ties); every multiset of 1-4 paths from a pool of 12 paths (1819 lists) and every ordered list of 1-3 paths from a second '
            'pool of 12 paths with times/ids -1 and -2, ids 1 and "1", and durations of 2e9 +- 1 (1884 lists)'}


def canon(p):
    return tuple(tuple(h) for h in p)


def run_case(case, rec):
    import dynetx.algorithms as al
    from .. import gen
    if 'long' in case:
        raw = [long_path(k) for k in case['long']]
        rec.classify('paths of 300+ hops')
    else:
        raw = case['paths']
    raw = [[[gen.decode_node(h[0]), gen.decode_node(h[1]), h[2]] for h in p] for p in raw]
    if any(isinstance(x, gen.Opaque) for p in raw for h in p for x in h[:2]):
        rec.classify('node ids equal only to themselves')
    if case.get('as_list'):
        paths = [[tuple(h) for h in p] for p in raw]
    else:
        paths = [tuple(tuple(h) for h in p) for p in raw]
    inputs = {canon(p) for p in paths}
    ctx = 'annotate_paths(%s)' % (repr(paths) if 'long' not in case else 'long paths %r as (hops, first time, step)' % [LONG[k] for k in case['long']],)
    for p in paths:
        ok, ln = safe(al.path_length, p)
        rec.check('C14.length', ok and ln == len(p), lambda: 'path_length(%r) = %r' % (p, ln))
        ok, du = safe(al.path_duration, p)
        rec.check('C14.duration', ok and du == p[-1][2] - p[0][2], lambda: 'path_duration(%r) = %r' % (p, du))
    ok, ann = safe(al.annotate_paths, paths)
    if not rec.check('C14.call', ok, lambda: '%s raised %r' % (ctx, ann)):
        return False
    keys = {'shortest', 'fastest', 'foremost', 'fastest_shortest', 'shortest_fastest'}
    if not rec.check('C14.keys', isinstance(ann, dict) and set(ann) == keys and all(isinstance(v, list) for v in ann.values()),
                     lambda: '%s returned %r' % (ctx, ann)):
        return False
    L = lambda p: len(p)
    D = lambda p: p[-1][2] - p[0][2]
    A = lambda p: p[-1][2]
    cs = sorted(inputs, key=repr)
    shortest = {p for p in cs if L(p) == min(map(L, cs))}
    fastest = {p for p in cs if D(p) == min(map(D, cs))}
    foremost = {p for p in cs if A(p) == min(map(A, cs))}
    exp = {'shortest': shortest, 'fastest': fastest, 'foremost': foremost,
           'fastest_shortest': {p for p in shortest if D(p) == min(map(D, shortest))},
           'shortest_fastest': {p for p in fastest if L(p) == min(map(L, fastest))}}
    for k in sorted(keys):
        got = {canon(p) for p in ann[k]}
        rec.check('C14.' + k, got == exp[k], lambda: '%s[%r] = %r, expected %r' % (ctx, k, sorted(got, key=repr), sorted(exp[k], key=repr)))
        rec.check('C14.member', got <= inputs, lambda: '%s[%r] contains paths that are not in the input: %r' % (ctx, k, sorted(got - inputs, key=repr)))
    tie = any(len(exp[k]) >= 2 for k in ('shortest', 'fastest', 'foremost'))
    differ = len({frozenset(exp[k]) for k in ('shortest', 'fastest', 'foremost')}) >= 2
    if len(inputs) < len(paths):
        rec.classify('duplicate paths')
    if tie:
        rec.classify('tie')
    if exp['fastest_shortest'] != exp['shortest']:
        rec.classify('secondary criterion narrows shortest')
    if exp['shortest_fastest'] != exp['fastest']:
        rec.classify('secondary criterion narrows fastest')
    return len(inputs) >= 3 and tie and differ
