"""C07 - a rejected update leaves no trace."""
from .. import gen
from ..drive import Driver, ADD_OPS, apply_model, elements
from ..observe import observe, diff
from . import common
from .common import safe

ID = 'C07'
RULE = ('Fault sequences: histories on both classes and both modes (edge_removal True/False) in which 1-4 calls are '
        'constructed to be rejected (span starting 1-4 instants before the latest run of an existing pair, as a single '
        'call or as the k-th element of add_interactions_from / add_path / add_star, endpoints possibly fresh or flipped; '
        'calls without t), each followed by legal continuations. For every raising call: exception type, '
        'observe(G) before == after (nodes+attrs, timelines, ids, counts, stream, presence scan) for single calls, and '
        'state == model-after-preceding-elements for bulk calls; at the end the C01/C03/C04/C05 oracles against a model '
        'that never saw the rejected calls; 24 fixed histories with a bulk call of 1100-1300 elements whose 600th is rejected, in every tier. non-trivial = a rejected call mentioned a node or an instant not yet in the '
        'graph and was followed by an accepted call on the same pair.')
ASSUMPTIONS = ['e > t', 'in accumulative mode the statement fixes no acceptance rule: whichever way the library answers '
               'a call on an existing pair is followed, and a ValueError must leave no trace']
TECHNIQUE = 'fault-sequence PBT: generated rejected calls inside histories, before/after observation equality and model-prefix agreement'
BUDGET = {'quick': {'cases': 16000, 'seconds': 45}, 'thorough': {'cases': 500000, 'seconds': 540}}
KINDS = ['add', 'add', 'add', 'add_from', 'path', 'star', 'cycle', 'node', 'reject', 'reject', 'reject', 'missing_t']


def strategy(tier):
    return gen.tiered(tier, max_ops=12, min_ops=2, kinds=KINDS, removal=(True, True, False), attrs='handles', shifts=True)


def exhaustive(tier):
    """Bulk calls with more than 1000 elements (every tier): an element in the middle is rejected, later elements
    name nodes the graph has not seen; the four ebunch forms of drive.call_real all occur."""
    cases = []
    for cls in ('DynGraph', 'DynDiGraph'):
        for removal in (True, False):
            for v in range(6):
                pairs = [[(i + v) % 3, (i * 2 + 1) % 3] for i in range(1100 + 37 * v)]
                k = 600 + v
                pairs[k] = [2, 3]                       # (2, 3) was added at t = 9: its span at t = 5 is rejected
                pairs[k + 50] = [4, 5]                  # never reached: nodes 4 and 5 must not appear
                cases.append({'cls': cls, 'removal': removal, 'nodes': [10, 11, 12, 13, 14, 15], 'bigbulk': True,
                              'ops': [['add', 2, 3, 9, None], ['add_from', pairs, 5, (7 if v % 2 else None)], ['add', 0, 1, 20 + v, None]]})
    return {'cases': cases, 'bound': '24 fixed histories with an add_interactions_from call of 1100-1300 elements whose 600th is rejected'}


def check_nodes(rec, sub, G, M, ctx):
    ok, nd = safe(lambda: dict(G.nodes(data=True)))
    exp = {n: a for n, a in M.nodes.items()}
    return rec.check(sub, ok and nd == exp, lambda: '%s nodes(data=True) = %r, model has %r' % (ctx, nd, exp))


def check_state(rec, prefix, G, M, nodes, ctx):
    """Whole-state agreement with the model (used after a failing bulk call and at the end)."""
    res = check_nodes(rec, prefix + '.nodes', G, M, ctx)
    res &= common.check_presence(rec, prefix, G, M, nodes, ctx=ctx)
    if M.removal:
        res &= common.check_timelines(rec, prefix + '.timelines', G, M, ctx=ctx)
        res &= common.check_snapshots(rec, prefix + '.snapshots', G, M, ctx=ctx)
    else:
        ok, ids = safe(G.temporal_snapshots_ids)
        res &= rec.check(prefix + '.snapshots.ids', ok and ids == M.ids(),
                         lambda: '%s temporal_snapshots_ids() = %r, accepted add instants %r' % (ctx, ids, M.ids()))
    res &= common.check_stream(rec, prefix + '.stream', G, M, ctx=ctx, closure=False)
    return res


def run_case(case, rec):
    d = Driver(case)
    nontrivial = False
    if case.get('bigbulk'):
        rec.classify('bulk call with > 1000 elements, one rejected')
    pending = {}       # pair key -> True: a rejected call introduced something new on that pair
    for i, op in enumerate(case['ops']):
        is_add = op[0] in ADD_OPS + ('add_not', 'add_from_not')
        before = None
        introduces_new = False
        if is_add:
            ok, before = safe(observe, d.G, d.nodes, d.M.probes())
            if not ok:
                rec.check('C07.observe', False, 'observe() raised %r before op %d' % (before, i))
                return False
            known_inst = d.M.mentioned_instants()
            for (u, v, t, e) in elements(op, d.nodes, d.shift):
                if u not in d.M.nodes or v not in d.M.nodes or (t is not None and t not in known_inst):
                    introduces_new = True
        r = d.step(op)
        if d.desync:
            rec.note('accumulative bulk call answered differently from the prediction (case dropped)')
            return False
        ctx = 'op %d %r' % (i, op)
        if r['actual'] != r['expected']:
            # in removal mode the rule is documented: this is C01's business, but a wrong rejection
            # also breaks the premise of this property, so it is reported here too.
            rec.check('C07.outcome', False, '%s: expected %s, got %s (%r)' % (ctx, r['expected'], r['actual'], r['exc']))
            return False
        if not is_add:
            continue
        if r['actual'] != 'ok':
            rec.classify('rejected:' + r['actual'] + ':' + op[0])
            single = op[0] in ('add', 'add_not', 'add_from_not') or r['applied'] == 0
            if single:
                ok, after = safe(observe, d.G, d.nodes, d.M.probes())
                good = ok and after == before
                rec.check('C07.no_trace', good,
                          lambda: '%s raised %s but changed %s: before %r / after %r' % (
                              ctx, r['actual'], diff(before, after) if ok else after,
                              {k: before[k] for k in (diff(before, after) if ok else [])},
                              {k: after[k] for k in (diff(before, after) if ok else [])}))
            else:
                rec.classify('bulk_failed_at_%d' % r['applied'])
            check_state(rec, 'C07.bulk_prefix' if not single else 'C07.state_after_reject', d.G, d.M, d.nodes, ctx)
            if introduces_new:
                for (u, v, t, e) in elements(op, d.nodes, d.shift):
                    pending[d.M.key(u, v)] = True
        else:
            for (u, v, t, e) in elements(op, d.nodes, d.shift):
                if pending.get(d.M.key(u, v)):
                    nontrivial = True
    if d.M.removal:
        check_state(rec, 'C07.continuation', d.G, d.M, d.nodes, 'final state')
    else:
        check_state(rec, 'C07.continuation', d.G, d.M, d.nodes, 'final state (accumulative)')
    for c in d.classes:
        rec.classify(c)
    rec.classify('mode:' + ('removal' if d.M.removal else 'accumulative'))
    return nontrivial
