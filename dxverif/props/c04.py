"""C04 - snapshot ids are the inhabited instants; per-snapshot counts are exact."""
from .. import gen
from ..drive import Driver, ADD_OPS
from . import common

ID = 'C04'
RULE = ('Histories as C01 on removal-enabled graphs of both classes. After every call (accepted or rejected): '
        'temporal_snapshots_ids() (method and dn.*) == sorted inhabited instants of the model, '
        'interactions_per_snapshots(t) == number of pairs present at t for every probe instant (0 elsewhere), the '
        'no-argument dict has exactly the ids as keys, avg_number_of_nodes() == mean |V_t|. '
        'non-trivial = an interval span and a re-add/overlap/containment on some pair occurred before the last query.')
ASSUMPTIONS = ['e > t']
TECHNIQUE = 'model-based PBT: snapshot index and per-snapshot counts vs the reference model after every call'
BUDGET = {'quick': {'cases': 24000, 'seconds': 40}, 'thorough': {'cases': 400000, 'seconds': 540}}


def strategy(tier):
    return gen.tiered(tier, max_ops=14, shifts=True)


def exhaustive(tier):
    import itertools
    long_ = gen.very_long_cases()       # every tier: fourteen fixed histories with a pair of 65-300 runs
    if tier != 'thorough':
        return {'cases': long_, 'bound': '14 fixed very long histories (one pair with 65-300 runs)'}
    return {'cases': itertools.chain(long_, common.single_pair_histories()), 'bound': common.SINGLE_PAIR_BOUND + '; 14 fixed very long histories (one pair with 65-300 runs)'}


def run_case(case, rec):
    d = Driver(case)
    sched = common.observe_schedule(case)
    rec.classify('queries after: ' + sched)
    for i, op in enumerate(case['ops']):
        r = d.step(op)
        if r['actual'] != r['expected']:
            rec.note('outcome_mismatch(left to C01)')
            break
        if op[0] in ADD_OPS and common.due(sched, i, len(case['ops']) - 1):
            common.check_snapshots(rec, 'C04', d.G, d.M, ctx='after op %d %r' % (i, op))
    for c in d.classes:
        rec.classify(c)
    return 'interval' in d.classes and bool(d.classes & {'overlap_extend', 'contained', 'duplicate'})
