"""C09 - snapshot edge-list files round-trip the presence relation."""
from collections import Counter

from hypothesis import strategies as st

from .. import gen
from ..drive import Driver, elements
from . import common, iocommon
from .common import safe

ID = 'C09'
RULE = ('Reachable removal-enabled states of both classes (histories of 1-10 accepted calls; reciprocal arcs, self-loops, '
        'multi-run timelines; node ids ints or delimiter/comment/whitespace-free strings incl. non-ASCII) x delimiter in '
        "{' ', tab, ',', ';', '|', '::'} x encoding in {utf-8, latin-1, ascii} x target in {path, .gz, .bz2, .gzip, open "
        'binary file, BytesIO}. Oracles: written rows as a multiset == one (u, v, t) row per model interaction and '
        'instant (orientation significant when directed), requested delimiter, every line newline-terminated and decodable, '
        'compressed targets carry the gzip/bz2 magic, caller-owned file objects are left open; read_snapshots with matching '
        'parameters gives the model presence (all ordered pairs x probes); the same history written by hand as 3/4-column '
        'rows (u v t [e]) and parsed gives the model presence; 18 fixed round trips of ~250 KiB and 2 of > 1 MiB in every tier. non-trivial = >= 2 pairs, a multi-run timeline and '
        '(directed) a reciprocal pair or (undirected) a self-loop.')
ASSUMPTIONS = ['e > t', 'encodings whose newline is the single byte 0x0A (the reader splits the binary stream on it)',
               'node ids contain no delimiter, comment marker or whitespace; ASCII-only ids when encoding=ascii']
TECHNIQUE = 'round-trip PBT over graph x delimiter x encoding x target kind, plus hand-written 3/4-column rows vs the model'
BUDGET = {'quick': {'cases': 10000, 'seconds': 45}, 'thorough': {'cases': 400000, 'seconds': 540}}
KINDS = ['add', 'add', 'add', 'add', 'add', 'add_from', 'path', 'cycle', 'recip', 'recip']


def strategy(tier):
    return st.tuples(gen.tiered(tier, max_ops=10, rejects=False, kinds=KINDS, node_kinds=('int', 'safestr'), attrs=False),
                     iocommon.IO_PARAMS).map(lambda x: dict(x[0], io=x[1]))


def exhaustive(tier):
    """A few large files in every tier: more than 64 KiB of rows with multi-byte node ids, through the
    compressed, plain and in-memory targets (block-wise readers, buffers)."""
    cases = []
    for cls in ('DynGraph', 'DynDiGraph'):
        for target, delim in (('gz', ' '), ('bz2', '\t'), ('plain', ','), ('bytesio', ';')):
            cases.append({'big': True, 'cls': cls, 'removal': True, 'io': {'delim': delim, 'enc': 'utf-8', 'target': target}})
    # the same content shifted byte by byte, so that every alignment of a multi-byte character with a 64 KiB
    # block boundary of the compressed readers occurs
    for shift in range(1, 11):
        for target in ('gz', 'bz2')[shift % 2:][:1]:
            cases.append({'big': True, 'shift': shift, 'cls': 'DynGraph', 'removal': True, 'io': {'delim': ' ', 'enc': 'utf-8', 'target': target}})
    # ... and two files of more than 1 MiB (readers that buffer or size-limit their input)
    cases.append({'big': True, 'span': 1500, 'cls': 'DynGraph', 'removal': True, 'io': {'delim': ' ', 'enc': 'utf-8', 'target': 'plain'}})
    cases.append({'big': True, 'span': 1500, 'cls': 'DynDiGraph', 'removal': True, 'io': {'delim': '\t', 'enc': 'utf-8', 'target': 'gz'}})
    return {'cases': cases, 'bound': '2 round trips of > 1 MiB (66 pairs x 1500 instants = 99000 rows) and 18 fixed large round trips (12 nodes with multi-byte ids, 66 pairs x 300 instants = 19800 rows, ~250 KiB; 10 of them byte-shifted by 1-10) in addition to the generated cases'}


def big_case(case):
    names = ['é%d' % i for i in range(6)] + ['ß%d' % i for i in range(3)] + ['日%d' % i for i in range(3)]
    names[0] = 'x' * case.get('shift', 0) + names[0]      # appears in the first rows only: shifts everything after them
    ops = []
    k = 0
    for i in range(len(names)):
        for j in range(i + 1, len(names)):
            a, b = (i, j) if (k % 3 or case['cls'] == 'DynGraph') else (j, i)
            ops.append(['add', a, b, 100 + (k % 5), 100 + (k % 5) + case.get('span', 300)])
            k += 1
    return dict(case, nodes=names, ops=ops)


def run_case(case, rec):
    import dynetx as dn
    if case.get('big'):
        case = big_case(case)
        rec.classify('large file (> 1 MiB)' if case.get('span', 300) > 1000 else 'large file (> 64 KiB)')
    else:
        case = dict(case, nodes=iocommon.spaced_labels(case['nodes'], case['io']['delim']))
    d = Driver(case)
    accepted = []
    for op in case['ops']:
        r = d.step(op)
        if r['actual'] != r['expected']:
            rec.note('outcome_mismatch(left to C01)')
            return False
        accepted.extend(elements(op, d.nodes)[:r['applied']])
    G, M = d.G, d.M
    io_ = dict(case['io'])
    if io_['enc'] == 'ascii' and not iocommon.ascii_only(d.nodes):
        # the ids cannot be written in ascii: the attempt is made anyway (whatever it does, it must not
        # disturb the writes that follow), then the case goes on in utf-8
        with iocommon.Scratch() as sc0:
            okw, _w = safe(iocommon.write_with, dn.write_snapshots, G, sc0, io_['target'], delimiter=io_['delim'], encoding='ascii')
        rec.classify('unencodable write attempted first')
        io_['enc'] = 'utf-8'
    delim, enc, target = io_['delim'], io_['enc'], io_['target']
    nt = iocommon.nodetype_for(d.nodes, len(case['ops']))
    ctx = '%s delimiter=%r encoding=%s target=%s' % (case['cls'], delim, enc, target)
    rec.classify('target:' + target)
    rec.classify('delimiter:' + repr(delim))
    rec.classify('encoding:' + enc)
    with iocommon.Scratch() as sc:
        ok, out = safe(iocommon.write_with, dn.write_snapshots, G, sc, target, delimiter=delim, encoding=enc)
        if rec.check('C09.write.call', ok, lambda: '%s write_snapshots raised %r' % (ctx, out)):
            raw, reopen, target_ok = out
            # writing the same graph again (to memory) gives the same bytes: the writer keeps no state
            ok2, out2 = safe(iocommon.write_with, dn.write_snapshots, G, sc, 'bytesio', delimiter=delim, encoding=enc)
            rec.check('C09.write.stable', ok2 and out2[0] == raw, lambda: '%s: a second write gave different bytes: %r vs %r' % (ctx, out2[0][:120] if ok2 else out2, raw[:120]))
            rec.check('C09.target', target_ok, lambda: '%s: wrong magic bytes / file object closed by the writer' % ctx)
            okd, rows = iocommon.decode_rows(raw, enc, delim)
            if rec.check('C09.rows.format', okd and all(len(r) == 3 for r in rows),
                         lambda: '%s: bytes %r do not decode into newline-terminated 3-column rows' % (ctx, raw[:200])):
                exp = Counter()
                for k, (u, v) in M.orient.items():
                    for t in M.pres[k]:
                        exp[(str(u), str(v), str(t)) if d.directed else (frozenset((str(u), str(v))), str(t))] += 1
                got = Counter(((r[0], r[1], r[2]) if d.directed else (frozenset((r[0], r[1])), r[2])) for r in rows)
                rec.check('C09.rows', got == exp, lambda: '%s: rows missing %r, unexpected %r' % (
                    ctx, sorted((exp - got).elements(), key=repr)[:5], sorted((got - exp).elements(), key=repr)[:5]))
            okr, H = safe(lambda: dn.read_snapshots(reopen(), directed=d.directed, nodetype=nt, timestamptype=int,
                                                    delimiter=delim, encoding=enc))
            if rec.check('C09.read.call', okr, lambda: '%s read_snapshots raised %r' % (ctx, H)):
                rec.check('C09.roundtrip.class', type(H) is type(G), lambda: '%s read back as %r' % (ctx, type(H)))
                common.check_presence(rec, 'C09.roundtrip', H, M, d.nodes, ctx=ctx,
                                      probes=[99, 100, 101, 104, 170] + [100 + case.get('span', 300) + k for k in (-1, 0, 3, 4, 5)] if case.get('big') else None)
                used = {x for k in M.orient for x in M.orient[k]}
                okn, hn = safe(lambda: set(H.nodes()))
                rec.check('C09.roundtrip.nodes', okn and hn == used, lambda: '%s nodes read back %r, endpoints %r' % (ctx, hn, used))
    # hand-written rows, 3 and 4 columns
    lines = []
    if True:
        for (u, v, t, e) in accepted:
            lines.append(delim.join([str(u), str(v), str(t)] + ([str(e)] if e is not None else [])) + '\n')
    okp, P = safe(lambda: dn.parse_snapshots(lines, directed=d.directed, nodetype=nt, timestamptype=int, delimiter=delim))
    if case.get('big'):
        return True
    if rec.check('C09.span_row.call', okp, lambda: '%s parse_snapshots(%r) raised %r' % (ctx, lines, P)):
        common.check_presence(rec, 'C09.span_row', P, M, d.nodes, ctx='%s rows %r' % (ctx, lines))
    for c in d.classes:
        rec.classify(c)
    multi = any(len(M.runs(k)) >= 2 for k in M.orient)
    special = ('reciprocal' in d.classes) if d.directed else ('selfloop' in d.classes)
    return len(M.orient) >= 2 and multi and special
