"""C12 - every returned time-respecting path is a genuine one."""
from hypothesis import strategies as st

from ..drive import Driver
from . import pathcommon as pc
from .common import safe

ID = 'C12'
RULE = ('Removal-enabled graphs of both classes (3-5 nodes, <= 6 snapshot ids, int or _-free string ids, bases 0/1/-7/1e3/'
        '-1e6/1e9, self-loops and reciprocal arcs, multi-run timelines) x 4 drawn queries (u, v in {None, node, u}, start/end '
        'in {None, first/last id, an id, a non-id instant inside the range}) for time_respecting_paths plus '
        'all_time_respecting_paths(start, end, min_t). Every returned path is validated hop by hop against the model: '
        'non-empty tuple of 3-tuples, leaves u, chaining, strictly increasing times inside [start, end], hop present (arc '
        'direction when directed), no immediate reversal, waiting condition at every snapshot id between arrival and '
        'departure, reaches v, key == (first node, last node), no duplicates under a key. '
        'non-trivial = some returned path has >= 3 hops and the window end is not the last id.')
ASSUMPTIONS = ['e > t', "node ids are ints or '_'-free strings (the statement's restriction)", 'windows lie inside [first id, last id]', 'sample=1']
TECHNIQUE = 'PBT with a validity predicate: every returned path checked hop by hop against the reference model; exhaustive small universes (thorough)'
BUDGET = {'quick': {'cases': 6000, 'seconds': 50}, 'thorough': {'cases': 90000, 'seconds': 560}}
QUERIES = st.lists(pc.QUERY, min_size=4, max_size=4)


def strategy(tier):
    return st.tuples(pc.graph_strategy(tier=tier), QUERIES, st.integers(0, 9)).map(lambda x: dict(x[0], q=[list(q) for q in x[1]], mt=x[2]))


def exhaustive(tier):
    if tier != 'thorough':
        return None
    return {'cases': pc.small_universe_cases(directed_step=16, loops=True),
            'bound': 'every undirected presence relation on 3 nodes x instants {0,1,2} incl. two self-loop pairs (2^15 - 1) and every 16th '
                     'directed one by bit index (16383), each with all roots, v in {None, each node}, windows [first,last] and [first,first+1]'}


def check_result(rec, res, O, u, v, start, end, ctx, group_u=None):
    """Validate a returned dict of paths.  Returns the longest path length."""
    longest = 0
    if not rec.check('C12.container', hasattr(res, 'items'), lambda: '%s returned %r' % (ctx, res)):
        return 0
    for key, plist in res.items():
        seen = set()
        for p in plist:
            src = u if group_u is None else key[0]
            bad = O.validate(p, src, v, start, end)
            for b in ('nonempty_tuple', 'hop_arity', 'first_hop_leaves_u', 'chaining', 'increasing_times', 'within_window',
                      'hop_present', 'no_reversal', 'waiting', 'reaches_v'):
                rec.check('C12.' + b, b not in bad, lambda: '%s path %r violates %s' % (ctx, p, b))
            if 'nonempty_tuple' in bad or 'hop_arity' in bad:
                continue
            rec.check('C12.key', key == (p[0][0], p[-1][1]), lambda: '%s path %r filed under key %r' % (ctx, p, key))
            rec.check('C12.no_duplicates', p not in seen, lambda: '%s path %r listed twice under %r' % (ctx, p, key))
            seen.add(p)
            longest = max(longest, len(p))
    return longest


def run_case(case, rec):
    import dynetx.algorithms as al
    d = Driver(case)
    half = len(case['ops']) // 2
    for i, op in enumerate(case['ops']):
        r = d.step(op)
        if r['actual'] != r['expected']:
            rec.note('outcome_mismatch(left to C01)')
            return False
        if i + 1 == half and len(case['ops']) & 1 and d.M.ids() and case.get('q'):
            # ask the same object once in the middle of its history (the answers are checked at the end
            # against the final state: nothing may be remembered from this call)
            u, v, start, end = pc.resolve(d.M, d.nodes, case['q'][-1])
            safe(lambda: al.time_respecting_paths(d.G, u, v, start, end))
            rec.classify('queried mid-history too')
    G, M = d.G, d.M
    if not M.ids():
        return False
    O = pc.PathOracle(M)
    nontrivial = False
    if case.get('all_q'):
        ids = M.ids()
        for u in M.nodes:
            for v in [None] + list(M.nodes):
                for (start, end) in {(None, None), (ids[0], min(ids[0] + 1, ids[-1]))}:
                    ctx = '%s time_respecting_paths(u=%r, v=%r, start=%r, end=%r)' % (case['cls'], u, v, start, end)
                    ok, res = safe(al.time_respecting_paths, G, u, v, start, end)
                    if rec.check('C12.call', ok, lambda: '%s raised %r' % (ctx, res)) and not (isinstance(res, list) and not res):
                        if check_result(rec, res, O, u, v, start, end, ctx) >= 2:
                            nontrivial = True
        return nontrivial
    for qi, q in enumerate(case['q']):
        u, v, start, end = pc.resolve(M, d.nodes, q)
        ctx = '%s time_respecting_paths(u=%r, v=%r, start=%r, end=%r)' % (case['cls'], u, v, start, end)
        ok, res = safe(al.time_respecting_paths, G, u, v, start, end)
        if not rec.check('C12.call', ok, lambda: '%s raised %r' % (ctx, res)):
            continue
        if isinstance(res, list) and not res:
            rec.classify('empty result (root absent at start)')
            continue
        longest = check_result(rec, res, O, u, v, start, end, ctx)
        rec.classify('longest path: %d hops' % min(longest, 5))
        if v is None:
            rec.classify('v omitted')
        elif v == u:
            rec.classify('v == u')
        if longest >= 3 and end is not None and end != M.ids()[-1]:
            nontrivial = True
        if qi == 0:
            ids = M.ids()
            mt = [None] + ids
            m = mt[case['mt'] % len(mt)]
            ctx2 = '%s all_time_respecting_paths(start=%r, end=%r, min_t=%r)' % (case['cls'], start, end, m)
            ok, res2 = safe(al.all_time_respecting_paths, G, start, end, 1, m)
            if rec.check('C12.call', ok, lambda: '%s raised %r' % (ctx2, res2)):
                check_result(rec, res2, O, None, None, start, end, ctx2, group_u=True)
                rec.classify('all_time_respecting_paths')
    for c in d.classes:
        rec.classify(c)
    return nontrivial
