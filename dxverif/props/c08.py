"""C08 - accumulative mode: interactions persist from first add to the last snapshot."""
from hypothesis import strategies as st

from .. import gen
from ..drive import Driver, ADD_OPS
from ..observe import observe, diff
from . import common
from .common import safe

ID = 'C08'
RULE = ('Histories of 1-12 calls (vanishing times, repeats, flipped endpoints, bulk helpers, rejected and t-less calls '
        'included) on DynGraph(edge_removal=False) and DynDiGraph(edge_removal=False). After every call: '
        'has_interaction over all ordered pairs x probes == (t0 <= t <= max snapshot id), also right after an unrelated '
        'pair moved the maximum; stream == exactly one \'+\' per pair at its first instant, no \'-\'; snapshot ids == '
        'instants of accepted adds; a raising call leaves observe(G) unchanged; at the end the full C02 query battery '
        'against that presence. non-trivial = >= 2 pairs, a later add on pair A after pair B first appeared, and a '
        'vanishing time supplied.')
ASSUMPTIONS = ['e > t', 'no acceptance rule is stated for accumulative graphs: a call on an existing pair may succeed or raise '
               'ValueError; either way the model follows the library and checks the consequences']
TECHNIQUE = 'model-based PBT on accumulative graphs (presence = [first add, last snapshot id]) incl. the differential query battery'
BUDGET = {'quick': {'cases': 7000, 'seconds': 45}, 'thorough': {'cases': 160000, 'seconds': 540}}
KINDS = ['add', 'add', 'add', 'add', 'add', 'add_from', 'path', 'star', 'cycle', 'node', 'missing_t', 'recip']
NB = st.lists(st.lists(st.integers(0, 7), min_size=0, max_size=4, unique=True), min_size=2, max_size=2)


def strategy(tier):
    return st.tuples(gen.tiered(tier, max_ops=12, kinds=KINDS, removal=(False,), horizon=8, shifts=True), NB).map(lambda x: dict(x[0], nb=x[1]))


def run_case(case, rec):
    d = Driver(case)
    later_after_other = False
    first_seen = []
    for i, op in enumerate(case['ops']):
        is_add = op[0] in ADD_OPS + ('add_not', 'add_from_not')
        before = None
        if is_add:
            ok, before = safe(observe, d.G, d.nodes, d.M.probes())
        keys_before = set(d.M.orient)
        r = d.step(op)
        if d.desync:
            rec.note('bulk call answered differently from the prediction (case dropped)')
            return False
        ctx = 'after op %d %r' % (i, op)
        if not rec.check('C08.outcome', r['actual'] == r['expected'],
                         lambda: '%s: expected %s, got %s (%r)' % (ctx, r['expected'], r['actual'], r['exc'])):
            return False
        if r['lenient']:
            rec.classify('library answer followed: ' + r['actual'])
        if not is_add:
            continue
        if r['actual'] != 'ok' and r['applied'] == 0 and before is not None:
            ok, after = safe(observe, d.G, d.nodes, d.M.probes())
            rec.check('C08.no_trace', ok and after == before, lambda: '%s raised %s but changed %r' % (ctx, r['actual'], diff(before, after) if ok else after))
        for key, new in r['news']:
            if key in keys_before and any(k2 != key for k2 in keys_before):
                later_after_other = True
        common.check_presence(rec, 'C08.presence', d.G, d.M, d.nodes, ctx=ctx)
        common.check_stream(rec, 'C08.stream', d.G, d.M, ctx=ctx)
        ok, ids = safe(d.G.temporal_snapshots_ids)
        rec.check('C08.ids', ok and ids == d.M.ids(), lambda: '%s temporal_snapshots_ids() = %r, accepted add instants %r' % (ctx, ids, d.M.ids()))
    pool = d.nodes + common.UNKNOWN
    nbs = [list(dict.fromkeys(pool[i % len(pool)] for i in nb)) for nb in case['nb']]
    common.check_queries(rec, 'C08.queries', d.G, d.M, d.nodes, ctx=case['cls'] + ' final', nbunches=nbs)
    # reading is not writing: after every read accessor has been asked about instants with and without adds
    # (the per-instant counter included; its value in this mode is not stated and not checked), ids and presence stand
    for t in d.M.probes():
        safe(d.G.interactions_per_snapshots, t)
        safe(d.G.number_of_interactions, t=t)
        safe(d.G.number_of_nodes, t)
    ok, ids = safe(d.G.temporal_snapshots_ids)
    rec.check('C08.ids.after_reads', ok and ids == d.M.ids(),
              lambda: 'after read-only queries at %r: temporal_snapshots_ids() = %r, accepted add instants %r' % (d.M.probes(), ids, d.M.ids()))
    common.check_presence(rec, 'C08.presence.after_reads', d.G, d.M, d.nodes, ctx=case['cls'] + ' after read-only queries')
    for c in d.classes:
        rec.classify(c)
    return len(d.M.orient) >= 2 and later_after_other and 'interval' in d.classes
