"""Reference model of a dynamic graph (DESIGN.md section 3).

No networkx in the semantic part: a dynamic graph is a dict of nodes with attributes and, per
pair, a set of integer instants.  Everything the library can be asked is recomputed from that.
`static(t)` builds a plain networkx graph only so that C02 can ask networkx itself.
"""
import copy


def snap(x):
    """Structural copy: containers are copied, everything else is kept by reference (copy.deepcopy would
    clone or refuse identity-valued attribute values)."""
    if isinstance(x, dict):
        return {k: snap(v) for k, v in x.items()}
    if isinstance(x, list):
        return [snap(v) for v in x]
    if isinstance(x, tuple):
        return tuple(snap(v) for v in x)
    return x


def runs_of(instants):
    """Canonical sorted, disjoint, non-adjacent closed intervals of a set of ints."""
    out = []
    for x in sorted(instants):
        if out and out[-1][1] + 1 == x:
            out[-1][1] = x
        else:
            out.append([x, x])
    return out


class Ref:
    def __init__(self, directed, removal=True):
        self.directed = bool(directed)
        self.removal = bool(removal)
        self.nodes = {}          # node -> attr dict (insertion ordered)
        self.graph = {}          # graph attributes
        self.pres = {}           # key -> set of instants            (removal mode)
        self.first = {}          # key -> first accepted instant      (accumulative mode)
        self.acc_runs = {}       # key -> set of accepted add instants (accumulative mode)
        self.add_instants = set()  # accumulative mode: instants of every accepted add
        self.orient = {}         # key -> (u, v) as first given
        # bookkeeping used by known-finding triggers (a function of the history only)
        self.point_closed = {}   # key -> set of instants first covered by a point add extending a
        #                          one-instant run (DESIGN 8 #5)

    # ------------------------------------------------------------------ keys
    def key(self, u, v):
        return (u, v) if self.directed else frozenset((u, v))

    def ends(self, key):
        return self.orient[key]

    def keys(self):
        return list(self.orient)

    # ------------------------------------------------------------------ nodes
    def add_node(self, n, attrs=None):
        if n not in self.nodes:
            self.nodes[n] = {}
        if attrs:
            self.nodes[n].update(snap(attrs))

    # ------------------------------------------------------------------ updates
    def latest_run(self, key):
        if self.removal:
            p = self.pres.get(key)
        else:
            p = self.acc_runs.get(key)
        if not p:
            return None
        return runs_of(p)[-1]

    def expected_outcome(self, u, v, t, e=None):
        """'ok' | 'ValueError' | 'NetworkXError' | 'either' for one add_interaction call."""
        if t is None:
            return 'NetworkXError'
        key = self.key(u, v)
        lr = self.latest_run(key)
        if self.removal:
            if lr is not None and t < lr[0]:
                return 'ValueError'
            return 'ok'
        # accumulative mode: the statement fixes no acceptance rule
        if lr is None:
            return 'ok'
        return 'either'

    def apply_add(self, u, v, t, e=None):
        """Apply an accepted add_interaction(u, v, t, e)."""
        key = self.key(u, v)
        self.add_node(u)
        self.add_node(v)
        if key not in self.orient:
            self.orient[key] = (u, v)
        if self.removal:
            span = set(range(t, e)) if e is not None else {t}
            cur = self.pres.setdefault(key, set())
            if e is None:
                lr = runs_of(cur)[-1] if cur else None
                if lr is not None and lr[0] == lr[1] and t == lr[1] + 1:
                    self.point_closed.setdefault(key, set()).add(t)
            new = span - cur
            cur |= span
            return new
        else:
            if key not in self.first:
                self.first[key] = t
            self.acc_runs.setdefault(key, set()).add(t)
            self.add_instants.add(t)
            return {t}

    # ------------------------------------------------------------------ presence
    def max_id(self):
        ids = self.ids()
        return max(ids) if ids else None

    def present_key(self, key, t):
        if self.removal:
            return t in self.pres.get(key, ())
        if key not in self.first:
            return False
        m = self.max_id()
        return m is not None and self.first[key] <= t <= m

    def present(self, u, v, t=None):
        key = self.key(u, v)
        if t is None:
            return key in self.orient
        return self.present_key(key, t)

    def runs(self, key):
        if self.removal:
            return runs_of(self.pres.get(key, ()))
        if key not in self.first:
            return []
        return [[self.first[key], self.max_id()]]

    def ids(self):
        if self.removal:
            s = set()
            for p in self.pres.values():
                s |= p
            return sorted(s)
        return sorted(self.add_instants)

    def count(self, t):
        return sum(1 for k in self.orient if self.present_key(k, t))

    def E(self, t=None):
        """Oriented representative pairs present at t (all ever added if t is None)."""
        if t is None:
            return [self.orient[k] for k in self.orient]
        return [self.orient[k] for k in self.orient if self.present_key(k, t)]

    def nodes_at(self, t):
        s = set()
        for (u, v) in self.E(t):
            s.add(u)
            s.add(v)
        return s

    def mentioned_instants(self):
        s = set()
        if self.removal:
            for p in self.pres.values():
                s |= p
        else:
            s |= self.add_instants
        return s

    def probes(self, extra=()):
        m = set(self.mentioned_instants()) | set(extra)
        if not m:
            return [-1, 0, 1]
        lo, hi = min(m), max(m)
        out = list(range(lo - 2, hi + 3))
        out += [lo - 1000, hi + 1000, lo - 10 ** 6, hi + 10 ** 6]
        return out

    # ------------------------------------------------------------------ stream (C05)
    def expected_plus(self):
        """{(key, run.start)} in removal mode, {(key, first)} in accumulative mode."""
        out = set()
        for k in self.orient:
            if self.removal:
                for r in self.runs(k):
                    out.add((k, r[0]))
            else:
                out.add((k, self.first[k]))
        return out

    # ------------------------------------------------------------------ derived graphs
    def clone_empty(self, directed=None):
        r = Ref(self.directed if directed is None else directed, True)
        return r

    def slice(self, a, b):
        r = Ref(self.directed, True)
        for k, (u, v) in self.orient.items():
            keep = {t for t in self.pres.get(k, ()) if a <= t <= b}
            if keep:
                r.add_node(u, self.nodes[u])
                r.add_node(v, self.nodes[v])
                r.orient[k] = (u, v)
                r.pres[k] = keep
        return r

    def to_directed(self):
        assert not self.directed
        r = Ref(True, True)
        for n, a in self.nodes.items():
            r.add_node(n, a)
        r.graph = copy.deepcopy(self.graph)
        for k, (u, v) in self.orient.items():
            p = set(self.pres.get(k, ()))
            r.orient[(u, v)] = (u, v)
            r.pres[(u, v)] = set(p)
            if u != v:
                r.orient[(v, u)] = (v, u)
                r.pres[(v, u)] = set(p)
        return r

    def to_undirected(self, reciprocal=False):
        assert self.directed
        r = Ref(False, True)
        for n, a in self.nodes.items():
            r.add_node(n, a)
        r.graph = copy.deepcopy(self.graph)
        for k, (u, v) in self.orient.items():
            fk = frozenset((u, v))
            if fk in r.orient:
                continue
            a = set(self.pres.get((u, v), ()))
            b = set(self.pres.get((v, u), ()))
            if reciprocal:
                p = a & b if u != v else a
                if (v, u) not in self.orient:
                    p = set()
            else:
                p = a | b
            if p or not reciprocal:
                r.orient[fk] = (u, v)
                r.pres[fk] = p
        return r

    # ------------------------------------------------------------------ networkx view (C02)
    def static(self, t=None):
        import networkx as nx
        g = nx.DiGraph() if self.directed else nx.Graph()
        for n, a in self.nodes.items():
            g.add_node(n, **snap(a))
        for (u, v) in self.E(t):
            g.add_edge(u, v)
        return g

    def copy(self):
        """An independent copy that keeps the node ids themselves (ids may be objects that are equal only
        to themselves; deep-copying them would produce different ids)."""
        r = Ref(self.directed, self.removal)
        r.nodes = {n: snap(a) for n, a in self.nodes.items()}
        r.graph = copy.deepcopy(self.graph)
        r.pres = {k: set(v) for k, v in self.pres.items()}
        r.first = dict(self.first)
        r.acc_runs = {k: set(v) for k, v in self.acc_runs.items()}
        r.add_instants = set(self.add_instants)
        r.orient = dict(self.orient)
        r.point_closed = {k: set(v) for k, v in self.point_closed.items()}
        if hasattr(self, '_probes'):
            r._probes = list(self._probes)
        return r


def selftest():
    """Hand-computed cases from the property texts; an oracle bug must not look like a library bug."""
    m = Ref(False)
    assert m.expected_outcome(1, 2, None) == 'NetworkXError'
    m.apply_add(1, 2, 2)
    m.apply_add(1, 2, 2, 6)
    m.apply_add(2, 1, 7, 11)
    m.apply_add(1, 2, 8, 15)
    m.apply_add(1, 2, 18)
    m.apply_add(1, 2, 19)
    k = m.key(2, 1)
    assert m.runs(k) == [[2, 5], [7, 14], [18, 19]], m.runs(k)
    assert m.present(1, 2, 5) and not m.present(1, 2, 6) and m.present(2, 1, 19)
    assert not m.present(1, 2, 20) and m.present(1, 2) and not m.present(1, 3)
    assert m.expected_outcome(1, 2, 17) == 'ValueError'
    assert m.expected_outcome(1, 2, 18) == 'ok'
    assert m.expected_outcome(1, 3, 0) == 'ok'
    assert m.ids() == [2, 3, 4, 5, 7, 8, 9, 10, 11, 12, 13, 14, 18, 19]
    assert m.count(3) == 1 and m.count(6) == 0
    assert m.point_closed[k] == {19}
    assert m.expected_plus() == {(k, 2), (k, 7), (k, 18)}
    s = m.slice(5, 8)
    assert s.runs(k) == [[5, 5], [7, 8]]
    d = Ref(True)
    d.apply_add(1, 2, 0, 3)
    d.apply_add(2, 1, 2, 5)
    d.apply_add(3, 3, 1)
    assert d.present(1, 2, 2) and not d.present(2, 1, 1) and d.present(2, 1, 4)
    u = d.to_undirected()
    assert u.runs(frozenset((1, 2))) == [[0, 4]]
    ur = d.to_undirected(reciprocal=True)
    assert ur.runs(frozenset((1, 2))) == [[2, 2]]
    a = Ref(False, removal=False)
    a.apply_add(1, 2, 3, 9)
    a.apply_add(3, 4, 7)
    assert a.present(1, 2, 7) and not a.present(1, 2, 8) and not a.present(3, 4, 6)
    assert a.ids() == [3, 7]
    return True


if __name__ == '__main__':
    print(selftest())
