"""Interpret a concrete op list against the real graph and the reference model in lock step."""
import copy

import networkx as nx

from . import gen
from .gen import decode_node, fresh
from .model import Ref

ADD_OPS = ('add', 'add_from', 'path', 'star', 'cycle', 'tpath')


HUGE = 10 ** 4400        # beyond the interpreter's int -> str conversion limit (4300 digits)


def tshift(case):
    """Cases may carry 'tshift': every timestamp of the history is moved by +-10**4400 when it is played (the
    case file keeps the small numbers; such ints cannot even be printed)."""
    s = case.get('tshift')
    return 0 if not s else (HUGE if s == 'p4400' else -HUGE)


def shifted(op, s, conv=None):
    """op with every time field moved by s (and, if conv is given, converted - e.g. to numpy.int64)."""
    if not s and conv is None:
        return op
    k = op[0]
    mv = lambda x: None if x is None else (x + s if conv is None else conv(x + s))
    if k == 'add':
        return [k, op[1], op[2], mv(op[3]), mv(op[4])]
    if k == 'add_from':
        return [k, op[1], mv(op[2]), mv(op[3])]
    if k in ('path', 'star', 'cycle'):
        return [k, op[1], mv(op[2]), op[3], mv(op[4])]
    if k == 'tpath':
        return [k, op[1], mv(op[2])]
    return op


def elements(op, nodes, shift=0):
    """The sequence of add_interaction(u, v, t, e) calls an op boils down to."""
    op = shifted(op, shift)
    k = op[0]
    if k == 'add':
        return [(nodes[op[1]], nodes[op[2]], op[3], op[4])]
    if k == 'add_from':
        return [(nodes[a], nodes[b], op[2], op[3]) for a, b in op[1]]
    if k in ('path', 'star', 'cycle'):
        seq = [nodes[i] for i in op[1]]
        t, e = op[2], op[4]
        if k == 'path':
            pairs = list(zip(seq[:-1], seq[1:]))
        elif k == 'star':
            pairs = [(seq[0], n) for n in seq[1:]]
        else:
            pairs = list(zip(seq, seq[1:] + [seq[0]]))
        return [(u, v, t, e) for u, v in pairs]
    if k == 'tpath':     # a temporal chain: seq[i]-seq[i+1] at t0+i, as successive add_interaction calls
        seq = [nodes[i] for i in op[1]]
        return [(seq[i], seq[i + 1], op[2] + i, None) for i in range(len(seq) - 1)]
    if k == 'add_not':
        return [(nodes[op[1]], nodes[op[2]], None, None)]
    if k == 'add_from_not':
        return [(nodes[a], nodes[b], None, None) for a, b in op[1]]
    return []


def predicted(model, u, v, t, e):
    """Outcome used to keep the model in step.  In accumulative mode the statement fixes no
    acceptance rule; the library's observed rule (span starting before the latest run of the pair's
    accepted add instants) is used as a *prediction* only."""
    out = model.expected_outcome(u, v, t, e)
    if out != 'either':
        return out
    lr = model.latest_run(model.key(u, v))
    return 'ValueError' if (lr is not None and t < lr[0]) else 'ok'


def apply_model(model, nodes, op, on_element=None, shift=0):
    """Apply op to the model using predicted outcomes.  Returns (outcome, n_applied, new_instants)
    where new_instants is a list of (key, set) per applied element."""
    k = op[0]
    if k == 'node':
        model.add_node(nodes[op[1]], gen.decode_attrs(op[2]))
        return 'ok', 0, []
    if k == 'nodes_from':
        for i in op[1]:
            model.add_node(nodes[i], gen.decode_attrs(op[2]))
        return 'ok', 0, []
    if k == 'add_from_not':
        return 'NetworkXError', 0, []
    applied = 0
    news = []
    for (u, v, t, e) in elements(op, nodes, shift):
        out = predicted(model, u, v, t, e)
        if on_element is not None:
            on_element(u, v, t, e, out)
        if out != 'ok':
            return out, applied, news
        news.append((model.key(u, v), model.apply_add(u, v, t, e)))
        applied += 1
    return 'ok', applied, news


def new_graph(cls, removal=True):
    import dynetx as dn
    C = dn.DynGraph if cls == 'DynGraph' else dn.DynDiGraph
    return C(edge_removal=removal) if not removal else C()


def _variant(op, n):
    """Deterministic call-form selector: a pure function of the op, so replay files stay exact."""
    try:
        r = repr(op)
    except ValueError:          # an op that carries ints beyond the int -> str limit (continuations of shifted histories)
        def small(x):
            if isinstance(x, list):
                return [small(y) for y in x]
            return x % 10007 if isinstance(x, int) and not isinstance(x, bool) and abs(x) > 10 ** 100 else x
        r = repr(small(op))
    return sum(ord(c) for c in r) % n


def call_real(G, nodes, op, shift=0, tconv=None):
    """Perform op on the real graph; returns None or the exception instance.  The documented call
    forms are rotated (positional / keyword t and e; ebunch as list of tuples, tuple of lists,
    generator, 3-tuples with a data dict; node sequences as list, tuple or iterator)."""
    import dynetx as dn
    k = op[0]
    var = _variant(op, 12)
    op = shifted(op, shift, tconv)
    try:
        if k == 'add':
            u, v, t, e = nodes[op[1]], nodes[op[2]], op[3], op[4]
            if op[1] == op[2] and var % 2:
                v = fresh(u)        # a self-loop whose endpoints are equal but not the same object (where Python allows)
            if e is None:
                if var % 3 == 0:
                    G.add_interaction(u, v, t)
                elif var % 3 == 1:
                    G.add_interaction(u, v, t=t)
                else:
                    G.add_interaction(u, v, t, None)
            else:
                if var % 3 == 0:
                    G.add_interaction(u, v, t=t, e=e)
                elif var % 3 == 1:
                    G.add_interaction(u, v, t, e)
                else:
                    G.add_interaction(u=u, v=v, e=e, t=t)
        elif k == 'add_from':
            pairs = [(nodes[a], nodes[b]) for a, b in op[1]]
            form = var % 4
            if form == 1:
                ebunch = tuple([a, b] for a, b in pairs)
            elif form == 2:
                ebunch = ((a, b) for a, b in pairs)
            elif form == 3:
                ebunch = [(a, b, {'w': 1}) for a, b in pairs]
            else:
                ebunch = pairs
            if op[3] is None:
                G.add_interactions_from(ebunch, t=op[2])
            elif var % 2:
                G.add_interactions_from(ebunch, op[2], op[3])
            else:
                G.add_interactions_from(ebunch, t=op[2], e=op[3])
        elif k in ('path', 'star', 'cycle'):
            seq = [nodes[i] for i in op[1]]
            t, form, e = op[2], op[3], op[4]
            shape = var % 3
            arg = seq if shape == 0 else (tuple(seq) if shape == 1 else (iter(seq) if k != 'cycle' or form == 'm' else list(seq)))
            if form == 'm':
                getattr(G, 'add_' + k)(arg, t) if var % 2 else getattr(G, 'add_' + k)(arg, t=t)
            elif e is None:
                getattr(dn, 'add_' + k)(G, arg, t)
            else:
                getattr(dn, 'add_' + k)(G, arg, t, e=e)
        elif k == 'tpath':
            for (u, v, t, e) in elements(op, nodes):
                G.add_interaction(u, v, t)
        elif k == 'node':
            G.add_node(nodes[op[1]], **gen.decode_attrs(op[2]))
        elif k == 'nodes_from':
            G.add_nodes_from([nodes[i] for i in op[1]], **gen.decode_attrs(op[2]))
        elif k == 'add_not':
            G.add_interaction(nodes[op[1]], nodes[op[2]])
        elif k == 'add_from_not':
            G.add_interactions_from([(nodes[a], nodes[b]) for a, b in op[1]])
        else:
            raise AssertionError('unknown op %r' % (op,))
    except AssertionError:
        raise
    except Exception as ex:  # the library's answer; classified by the caller
        return ex
    return None


def exc_kind(ex):
    if ex is None:
        return 'ok'
    if isinstance(ex, nx.NetworkXError):
        return 'NetworkXError'
    if type(ex) is ValueError:
        return 'ValueError'
    return type(ex).__name__


class Driver:
    """Runs a case step by step.  After each step `self.last` describes it."""

    def __init__(self, case):
        self.case = case
        # the graph is fed with one set of node objects, the model (and therefore every query the oracles
        # derive from it) with equal but distinct ones
        self.anodes = [decode_node(x) for x in case['nodes']]
        self.nodes = [fresh(n) for n in self.anodes]
        self.directed = case['cls'] == 'DynDiGraph'
        self.removal = case.get('removal', True)
        self.G = new_graph(case['cls'], self.removal)
        self.M = Ref(self.directed, self.removal)
        self.shift = tshift(case)
        self.tconv = None
        if case.get('tkind') == 'np64' and not self.shift:
            # timestamps handed over as numpy.int64 (what numpy arrays and timestamptype=numpy.int64 produce); the
            # model keeps Python ints - they are equal and hash alike
            import numpy as np
            big = 2 ** 62
            self.tconv = lambda x: np.int64(x) if -big < x < big else x
        self.desync = False      # accumulative mode: prediction and library disagreed
        self.classes = set()

    def classify(self, u, v, t, e, out):
        """Shape classes of one add element relative to the model state *before* it is applied."""
        M = self.M
        if t is None:
            self.classes.add('missing_t')
            return
        key = M.key(u, v)
        if u == v:
            self.classes.add('selfloop')
        if self.directed and (v, u) in M.orient and u != v:
            self.classes.add('reciprocal')
        if not self.directed and key in M.orient and M.orient[key] != (u, v) and u != v:
            self.classes.add('flipped')
        lr = M.latest_run(key)
        if lr is None:
            self.classes.add('new_pair')
        else:
            s, en = lr
            b = (e - 1) if (e is not None and self.removal) else t
            if t < s:
                self.classes.add('rejected')
            elif t == s and b == en:
                self.classes.add('duplicate')
            elif b <= en:
                self.classes.add('contained')
            elif t <= en:
                self.classes.add('overlap_extend')
            elif t == en + 1:
                self.classes.add('adjacent')
                if e is None and s == en:
                    self.classes.add('point_after_point')
                elif e is None:
                    self.classes.add('point_after_interval')
            else:
                self.classes.add('gap')
            nr = len(M.runs(key))
            if nr >= 2:
                self.classes.add('multi_run')
            if nr >= 9:
                self.classes.add('pair_with_9+_runs')
        if e is not None:
            self.classes.add('interval')
        for k2, p in M.pres.items():
            if k2 != key and (t in p or (t - 1) in p or (t + 1) in p):
                self.classes.add('shared_instant')
                break

    def step(self, op):
        nodes = self.nodes
        lenient = False
        if not self.removal and op[0] == 'add':
            # accumulative mode: the statement fixes no acceptance rule for an existing pair, so a
            # single call is followed whichever way the library answers (ok / ValueError).
            u, v, t, e = elements(op, nodes, self.shift)[0]
            expected = predicted(self.M, u, v, t, e)
            self.classify(u, v, t, e, expected)
            ex = call_real(self.G, self.anodes, op, self.shift, self.tconv)
            actual = exc_kind(ex)
            applied, news = 0, []
            if actual in ('ok', 'ValueError') and self.M.expected_outcome(u, v, t, e) == 'either':
                lenient = actual != expected
                expected = actual
            if expected == 'ok':
                news.append((self.M.key(u, v), self.M.apply_add(u, v, t, e)))
                applied = 1
        else:
            expected, applied, news = apply_model(self.M, nodes, op, self.classify, self.shift)
            ex = call_real(self.G, self.anodes, op, self.shift, self.tconv)
            actual = exc_kind(ex)
            if not self.removal and op[0] in ADD_OPS and actual != expected:
                self.desync = True
        rec = {'op': op, 'expected': expected, 'actual': actual, 'exc': ex, 'applied': applied,
               'news': news, 'lenient': lenient}
        self.last = rec
        return rec

    def run(self, after_step=None):
        for i, op in enumerate(self.case['ops']):
            r = self.step(op)
            if self.desync:
                break
            if after_step is not None:
                after_step(i, r)
        return self
