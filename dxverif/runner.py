"""Runner: tiers, seeding, sharding over processes, evidence, exit codes (DESIGN.md section 2).

    python -B -m dxverif.runner <ID> quick|thorough
    python -B -m dxverif.runner <ID> --replay <file>

exit 0  property held on everything explored (known findings are printed as KNOWN-FINDING lines)
exit 1  "VIOLATION property=<id> replay=<path>" for each failure bucket not covered by KNOWN_FINDINGS.txt
exit 2  harness error (never reported as a violation)
"""
import glob
import hashlib
import importlib
import json
import multiprocessing
import os
import sys
import time
import traceback

HERE = os.path.dirname(os.path.dirname(os.path.abspath(__file__)))
REPO = os.path.abspath(os.environ.get('DYNETX_REPO', '/repo'))
NSHARDS = int(os.environ.get('DXVERIF_SHARDS', '16'))


def _reexec():
    if os.environ.get('PYTHONHASHSEED') != '0' or os.environ.get('TQDM_DISABLE') != '1':
        env = dict(os.environ)
        env['PYTHONHASHSEED'] = '0'
        env['TQDM_DISABLE'] = '1'
        env['PYTHONDONTWRITEBYTECODE'] = '1'
        os.execve(sys.executable, [sys.executable, '-B', '-m', 'dxverif.runner'] + sys.argv[1:], env)


def _import_target():
    if REPO not in sys.path:
        sys.path.insert(0, REPO)
    deps = os.path.join(HERE, '.deps')
    if os.path.isdir(deps) and deps not in sys.path:
        sys.path.append(deps)
    import dynetx
    f = os.path.abspath(dynetx.__file__)
    if not f.startswith(REPO + os.sep):
        print('harness error: dynetx imported from %s, not from %s' % (f, REPO))
        sys.exit(2)
    return dynetx


def case_hash(case):
    return hashlib.blake2b(json.dumps(case, sort_keys=True, default=repr).encode(), digest_size=8).digest()


def case_size(case):
    return len(json.dumps(case, default=repr))


class Recorder:
    """Collects sub-oracle evaluations for one shard; failures are collected, never raised."""

    def __init__(self, prop, known_index, all_known=None):
        self.prop = prop
        self.known = known_index           # findings.Index of this property
        self.all_known = all_known         # findings.Index over every property
        self.evaluations = 0
        self.nontrivial = set()
        self.seen = set()
        self.classes = {}
        self.sub = {}
        self.known_hits = {}
        self.excluded = {}
        self.buckets = {}                  # sub -> {'case', 'detail', 'count', 'size'}
        self.samples = []
        self.skipped_budget = 0
        self.notes = {}
        self._case = None
        self._fails = None

    # -- per case
    def begin(self, case):
        self._case = case
        self._fails = []
        self._known_case = []

    def check(self, sub, ok, detail=None, known=None):
        """One evaluation of a sub-oracle.  `known` names the trigger predicate that holds on this
        case for this question (or None)."""
        self.sub[sub] = self.sub.get(sub, 0) + 1
        if ok:
            return True
        f = self.known.find(sub, known) if known is not None else None
        if f is not None:
            kid = f.ident
            self.known_hits[kid] = self.known_hits.get(kid, 0) + 1
            self._known_case.append(kid)
            return False
        try:
            d = detail() if callable(detail) else detail
        except Exception as ex:     # e.g. timestamps beyond the int -> str conversion limit
            d = '<detail could not be formatted: %r>' % (ex,)
        self._fails.append((sub, d))
        return False

    def is_listed(self, sub, trigger):
        return (sub, trigger) in self.known

    def exclude(self, ident, n=1):
        self.excluded[ident] = self.excluded.get(ident, 0) + n

    def classify(self, label, n=1):
        self.classes[label] = self.classes.get(label, 0) + n

    def note(self, key, n=1):
        self.notes[key] = self.notes.get(key, 0) + n

    def end(self, nontrivial, sample=None):
        self.evaluations += 1
        h = case_hash(self._case)
        first = h not in self.seen
        self.seen.add(h)
        if nontrivial:
            self.nontrivial.add(h)
            if first and len(self.samples) < 3:
                self.samples.append(sample if sample is not None else self._case)
        for sub, detail in self._fails:
            b = self.buckets.get(sub)
            size = case_size(self._case)
            if b is None:
                self.buckets[sub] = {'case': self._case, 'detail': _short(detail), 'count': 1, 'size': size}
            else:
                b['count'] += 1
                if size < b['size']:
                    b.update(case=self._case, detail=_short(detail), size=size)
        fails = self._fails
        self._case = None
        return fails

    def failed_subs(self):
        return [s for s, _ in self._fails]

    def summary(self):
        return {'evaluations': self.evaluations, 'nontrivial': self.nontrivial, 'classes': self.classes,
                'sub': self.sub, 'known_hits': self.known_hits, 'excluded': self.excluded,
                'buckets': self.buckets, 'samples': self.samples, 'skipped_budget': self.skipped_budget,
                'distinct': len(self.seen), 'notes': self.notes}


def _short(x, n=1500):
    s = x if isinstance(x, str) else repr(x)
    return s if len(s) <= n else s[:n] + '...'


class CaseTimeout(BaseException):
    """Raised by the per-case watchdog.  Deliberately not an Exception: the oracles' wrappers must not
    mistake it for an answer of the library."""


CASE_LIMIT_S = int(os.environ.get('DXVERIF_CASE_LIMIT', '60'))


def _on_alarm(signum, frame):
    raise CaseTimeout()


def run_one(mod, case, rec, limit=None):
    """Run one case; an exception escaping the property module is a harness error.  A case that runs
    longer than CASE_LIMIT_S (a hang in the code under test, e.g. a loop over an astronomically long
    span) is abandoned and counted as inconclusive - never as a violation."""
    import signal
    rec.begin(case)
    use_alarm = hasattr(signal, 'SIGALRM')
    if use_alarm:
        signal.signal(signal.SIGALRM, _on_alarm)
        signal.alarm(limit or CASE_LIMIT_S)
    try:
        nt = mod.run_case(case, rec)
    except CaseTimeout:
        rec.note('case abandoned after %d s (inconclusive)' % (limit or CASE_LIMIT_S))
        rec._fails = []
        nt = False
    except MemoryError:
        import gc
        gc.collect()
        rec.note('case abandoned: memory cap reached outside a guarded call (inconclusive)')
        nt = False
    finally:
        if use_alarm:
            signal.alarm(0)
    sample = None
    if isinstance(nt, tuple):
        nt, sample = nt
    return rec.end(bool(nt), sample)


SHARD_MEM_GB = float(os.environ.get('DXVERIF_SHARD_MEM_GB', '3'))


def _limit_memory():
    """Cap the data segment of a shard process: code under test that allocates without bound gets a MemoryError
    (an answer the oracles can judge) instead of taking the machine down with it."""
    try:
        import resource
        lim = int(SHARD_MEM_GB * (1 << 30))
        soft, hard = resource.getrlimit(resource.RLIMIT_DATA)
        if hard != resource.RLIM_INFINITY:
            lim = min(lim, hard)
        resource.setrlimit(resource.RLIMIT_DATA, (lim, hard))
    except Exception:
        pass


def derive_seed(seed, prop, shard):
    h = hashlib.blake2b(('%d/%s/%d' % (seed, prop, shard)).encode(), digest_size=8).digest()
    return int.from_bytes(h, 'big') % (2 ** 63)


def _shard(args):
    prop, tier, seed, shard, n_cases, budget_s = args
    try:
        _limit_memory()
        _import_target()
        import hypothesis
        from hypothesis import HealthCheck, Phase, given, settings
        from . import findings
        mod = importlib.import_module('dxverif.props.' + prop.lower())
        known, _ = findings.load()
        rec = Recorder(prop, findings.index(known, prop), findings.Index(known))
        t0 = time.time()
        # exhaustive part (sharded by index)
        exh = getattr(mod, 'exhaustive', None)
        exh_info = None
        if exh is not None:
            info = exh(tier)
            if info is not None:
                n = 0
                for i, case in enumerate(info['cases']):
                    if i % NSHARDS != shard:
                        continue
                    run_one(mod, case, rec)
                    n += 1
                exh_info = {'bound': info['bound'], 'n': n}
        if n_cases > 0:
            @hypothesis.seed(derive_seed(seed, prop, shard))
            @settings(max_examples=n_cases, database=None, deadline=None, derandomize=False,
                      report_multiple_bugs=False, phases=[Phase.generate],
                      suppress_health_check=list(HealthCheck))
            @given(mod.strategy(tier))
            def prop_test(case):
                if time.time() - t0 > budget_s:
                    rec.skipped_budget += 1
                    return
                run_one(mod, case, rec)
            try:
                prop_test()
            except MemoryError:
                # the code under test exhausted the shard's memory cap and the error surfaced outside a case
                # (inside the generator engine): what was recorded so far stands, the rest of the shard is inconclusive
                import gc
                gc.collect()
                rec.note('shard stopped early: memory cap reached (remaining cases inconclusive)')
        extra = getattr(mod, 'extra', None)
        if extra is not None:
            extra(tier, rec, derive_seed(seed, prop, shard), shard, NSHARDS)
        try:
            from .props import iocommon
            iocommon.sweep()
        except Exception:
            pass
        out = rec.summary()
        out['exhaustive'] = exh_info
        out['wall'] = time.time() - t0
        return ('ok', out)
    except BaseException:
        return ('error', traceback.format_exc())


def merge(parts):
    tot = {'evaluations': 0, 'nontrivial': set(), 'classes': {}, 'sub': {}, 'known_hits': {}, 'excluded': {},
           'buckets': {}, 'samples': [], 'skipped_budget': 0, 'distinct': 0, 'exhaustive': None, 'notes': {}}
    for p in parts:
        tot['evaluations'] += p['evaluations']
        tot['nontrivial'] |= p['nontrivial']
        tot['skipped_budget'] += p['skipped_budget']
        tot['distinct'] += p['distinct']
        for k in ('classes', 'sub', 'known_hits', 'excluded', 'notes'):
            for a, b in p[k].items():
                tot[k][a] = tot[k].get(a, 0) + b
        for s in p['samples']:
            if len(tot['samples']) < 5:
                tot['samples'].append(s)
        for sub, b in p['buckets'].items():
            cur = tot['buckets'].get(sub)
            if cur is None:
                tot['buckets'][sub] = dict(b)
            else:
                cur['count'] += b['count']
                if b['size'] < cur['size']:
                    cur.update(case=b['case'], detail=b['detail'], size=b['size'])
        if p.get('exhaustive'):
            if tot['exhaustive'] is None:
                tot['exhaustive'] = {'bound': p['exhaustive']['bound'], 'n': 0}
            tot['exhaustive']['n'] += p['exhaustive']['n']
    return tot


def replay_file(mod, prop, path, known_index):
    data = json.load(open(path, encoding='utf-8'))
    case = data['case'] if 'case' in data else data
    from . import findings as _f
    rec = Recorder(prop, known_index, _f.Index(_f.load()[0]))
    fails = run_one(mod, case, rec)
    return fails, rec


def write_replay(prop, sub, case, detail, outdir):
    os.makedirs(outdir, exist_ok=True)
    name = sub.replace('/', '_').replace('@', '_at_').replace(' ', '_')
    path = os.path.join(outdir, name + '.json')
    with open(path, 'w', encoding='utf-8') as f:
        json.dump({'property': prop, 'oracle': sub, 'detail': detail, 'case': case}, f, indent=1,
                  sort_keys=True, default=repr)
        f.write('\n')
    return path


def main(argv):
    if len(argv) < 2:
        print(__doc__)
        return 2
    prop = argv[0].upper()
    _import_target()
    from . import findings, shrink
    from .model import selftest
    selftest()
    mod = importlib.import_module('dxverif.props.' + prop.lower())
    known, _fixed = findings.load()
    kidx = findings.index(known, prop)
    kmap = {f.ident: f for f in kidx.items}

    if argv[1] == '--replay':
        fails, rec = replay_file(mod, prop, argv[2], kidx)
        for kid, n in rec.known_hits.items():
            print('KNOWN-FINDING: property=%s %s :: %s' % (prop, kid, kmap[kid].text))
        try:
            from .props import iocommon
            iocommon.sweep()
        except Exception:
            pass
        if fails:
            for sub, detail in fails:
                print('FAIL %s: %s' % (sub, _short(detail)))
            print('VIOLATION property=%s replay=%s' % (prop, argv[2]))
            return 1
        print('replay passed (%d sub-oracle evaluations)' % sum(rec.sub.values()))
        return 0

    tier = argv[1]
    if tier not in ('quick', 'thorough'):
        print('harness error: unknown tier %r' % tier)
        return 2
    seed = int(os.environ.get('VERIF_SEED', '1') or '1')
    t0 = time.time()
    outdir = os.path.join(HERE, 'out', 'replays', prop)
    violations = []      # (sub, path)
    known_seen = {}

    # 1. regression tier: committed replay files
    replay_count = 0
    for path in sorted(glob.glob(os.path.join(HERE, 'replays', prop, '*.json'))):
        fails, rec = replay_file(mod, prop, path, kidx)
        replay_count += 1
        for kid, n in rec.known_hits.items():
            known_seen[kid] = known_seen.get(kid, 0) + n
        if fails:
            for sub, detail in fails:
                print('FAIL (committed replay %s) %s: %s' % (os.path.basename(path), sub, _short(detail, 400)))
            violations.append((fails[0][0], path))

    # 2. generated tier
    budget = mod.BUDGET[tier]
    n_cases, budget_s = budget['cases'], budget.get('seconds', 600)
    per = (n_cases + NSHARDS - 1) // NSHARDS if n_cases else 0
    jobs = [(prop, tier, seed, i, per, budget_s) for i in range(NSHARDS)]
    ctx = multiprocessing.get_context('fork')
    # not multiprocessing.Pool: it waits forever for a worker that was killed (e.g. by the kernel's OOM killer when
    # the code under test allocates without bound); the executor reports a broken pool instead
    from concurrent.futures import ProcessPoolExecutor
    from concurrent.futures.process import BrokenProcessPool
    try:
        with ProcessPoolExecutor(max_workers=NSHARDS, mp_context=ctx) as pool:
            results = list(pool.map(_shard, jobs))
    except BrokenProcessPool:
        print('harness error: a shard process died (killed by the system?); no verdict')
        return 2
    errs = [r[1] for r in results if r[0] != 'ok']
    if errs:
        print('harness error in a shard:\n' + errs[0])
        return 2
    tot = merge([r[1] for r in results])
    for kid, n in tot['known_hits'].items():
        known_seen[kid] = known_seen.get(kid, 0) + n

    # 3. shrink + report new violation buckets
    t_shrink_end = time.time() + 300      # the unshrunk case is the replay once this is spent
    for sub, b in sorted(tot['buckets'].items()):
        case = b['case']
        detail = b['detail']
        try:
            left = t_shrink_end - time.time()
            small, sdetail = shrink.shrink(mod, prop, sub, case, kidx, wall_s=min(90, left)) if left > 1 else (None, None)
            if small is not None:
                case, detail = small, (sdetail or detail)
        except Exception:
            print('note: shrinking failed for %s:\n%s' % (sub, traceback.format_exc()))
        path = write_replay(prop, sub, case, detail, outdir)
        print('FAIL %s (%d cases): %s' % (sub, b['count'], _short(detail, 600)))
        violations.append((sub, path))

    for kid, n in sorted(known_seen.items()):
        f = kmap[kid]
        print('KNOWN-FINDING: property=%s oracle=%s trigger=%s hits=%d :: %s' % (prop, f.oracle, f.trigger, n, f.text))

    try:
        from .props import iocommon
        iocommon.sweep()
    except Exception:
        pass
    wall = time.time() - t0
    cov = {
        'evaluations': tot['evaluations'] + replay_count,
        'distinct_nontrivial': len(tot['nontrivial']),
        'rule': mod.RULE,
        'samples': tot['samples'][:5],
        'distinct_cases_per_shard_sum': tot['distinct'],
        'classes': dict(sorted(tot['classes'].items())),
        'sub_oracles': dict(sorted(tot['sub'].items())),
        'known_finding_hits': dict(sorted(known_seen.items())),
        'excluded': dict(sorted(tot['excluded'].items())),
        'notes': dict(sorted(tot['notes'].items())),
        'committed_replays': replay_count,
        'budget_exhausted': tot['skipped_budget'] > 0,
        'skipped_for_budget': tot['skipped_budget'],
        'shards': NSHARDS,
    }
    if tot['exhaustive']:
        cov['exhaustive'] = True
        cov['exhaustive_bound'] = tot['exhaustive']['bound']
        cov['exhaustive_cases'] = tot['exhaustive']['n']
    else:
        cov['exhaustive'] = False
    ev = {'property_id': prop, 'tier': tier, 'seed': seed, 'level': 'exploration', 'coverage': cov,
          'assumptions': list(getattr(mod, 'ASSUMPTIONS', [])), 'wall_s': round(wall, 2),
          'violations': len(violations)}
    # evidence/ describes runs against /repo only; runs against a scratch copy (mutant self-test) go elsewhere
    evdir = os.path.join(HERE, 'evidence') if REPO == '/repo' else os.path.join(HERE, 'out', 'evidence-scratch')
    os.makedirs(evdir, exist_ok=True)
    with open(os.path.join(evdir, prop + '.json'), 'w', encoding='utf-8') as f:
        json.dump(ev, f, indent=1, sort_keys=True, default=repr)
        f.write('\n')
    print('%s %s seed=%d: %d cases (%d distinct non-trivial), %d sub-oracle evaluations, %d known-finding hits, '
          '%d violation bucket(s), %.1fs' % (prop, tier, seed, cov['evaluations'], cov['distinct_nontrivial'],
                                             sum(tot['sub'].values()), sum(known_seen.values()), len(violations), wall))
    if violations:
        for sub, path in violations:
            print('VIOLATION property=%s replay=%s' % (prop, path))
        return 1
    return 0


if __name__ == '__main__':
    _reexec()
    try:
        code = main(sys.argv[1:])
    except SystemExit:
        raise
    except BaseException:
        traceback.print_exc()
        print('harness error')
        code = 2
    sys.exit(code)
