"""Hypothesis strategies (DESIGN.md section 5).

A *case* is a JSON-able dict:
    {"cls": "DynGraph"|"DynDiGraph", "removal": bool, "nodes": [encoded node ...], "ops": [op ...]}
Ops are concrete calls (see drive.py).  They are produced by a composite strategy that keeps a
Ref model while drawing, so that every operation can be positioned relative to the pair's latest
run (before / inside / touching / overlapping / after a gap / identical).  All randomness comes
from Hypothesis draws.
"""
import os

from hypothesis import strategies as st

from .model import Ref, runs_of, snap

# ----------------------------------------------------------------------------- node universes
INT_POOL = [0, 1, 2, 3, -1, 7, 10, -5, 42, 100, -2, 1000, 2 ** 40, -300]     # incl. hash(-1) == hash(-2) and ints outside the small-int cache
STR_POOL = ['a', 'b', 'c', 'A', '', 'é', 'n1', 'x y', 'ß', '0', '+', '-']      # '+' / '-' are also the stream's op symbols
# '_'-free strings for the path algorithms (occurrence names are '<id>_<time>'): blanks, a line feed, the empty string, dots and signs
PATH_STR_POOL = ['a', 'b', 'c', 'b\nc', 'x y', '', '-1', '7', 'é', 'k9', 'a.b', '\n', 'c\n']
SAFE_STR_POOL = ['a', 'b', 'c', 'A', 'n1', 'é', 'ß', 'zz', 'Q', 'k9', '0', '7', '10', '-1']     # incl. strings that look like ints
TUPLE_POOL = [[1, 2], [2, 1], [0], [], ['a', 1], [1, 2, 3]]
FSET_POOL = [[1], [1, 2], [], [3], ['a'], [2, 3]]


def encode_node(n):
    if isinstance(n, Opaque):
        return {"obj": n.k}
    if isinstance(n, tuple):
        return {"tuple": [encode_node(x) for x in n]}
    if isinstance(n, frozenset):
        return {"fset": sorted((encode_node(x) for x in n), key=repr)}
    return n


class Opaque:
    """A node id that is hashable and equal only to itself (a plain class instance).  A fixed pool of six:
    cases refer to them by number, so replay files stay exact."""
    __slots__ = ('k',)

    def __init__(self, k):
        self.k = k

    def __repr__(self):
        return 'Opaque(%d)' % self.k

    def __deepcopy__(self, memo):      # like object(): copying yields another (unequal) object
        return Opaque(self.k)


OPAQUE = [Opaque(i) for i in range(6)]


class Handle:
    """An attribute *value* that is equal only to itself and cannot be copied or pickled (like a lock, an
    open file, a connection).  Used only where the property says the attributes are carried, not copied."""
    __slots__ = ('k',)

    def __init__(self, k):
        self.k = k

    def __repr__(self):
        return 'Handle(%d)' % self.k

    def __deepcopy__(self, memo):
        raise TypeError("cannot pickle 'Handle' object")

    def __reduce_ex__(self, proto):
        raise TypeError("cannot pickle 'Handle' object")


HANDLES = [Handle(i) for i in range(3)]


def decode_attrs(x):
    """Case encoding -> attribute value: {"hnd": k} is HANDLES[k]; containers are rebuilt (fresh objects)."""
    if isinstance(x, dict):
        if len(x) == 1 and 'hnd' in x:
            return HANDLES[x['hnd']]
        return {k: decode_attrs(v) for k, v in x.items()}
    if isinstance(x, list):
        return [decode_attrs(v) for v in x]
    return x




def fresh(n):
    """An equal but distinct object wherever Python allows one (ints outside the small-int cache,
    multi-character strings, non-empty tuples / frozensets): queries are made with such copies, so that
    code comparing ids with `is` instead of `==` is exposed."""
    if isinstance(n, bool) or n is None:
        return n
    if isinstance(n, int):
        return int(str(n))
    if isinstance(n, str):
        return ''.join([c for c in n]) if len(n) > 1 else n
    if isinstance(n, tuple):
        return tuple(fresh(x) for x in n)
    if isinstance(n, frozenset):
        return frozenset(fresh(x) for x in n)
    return n


def decode_node(x):
    if isinstance(x, dict):
        if "tuple" in x:
            return tuple(decode_node(y) for y in x["tuple"])
        if "fset" in x:
            return frozenset(decode_node(y) for y in x["fset"])
        if "obj" in x:
            return OPAQUE[x["obj"]]
        raise ValueError(x)
    if isinstance(x, list):
        return tuple(decode_node(y) for y in x)
    return x


@st.composite
def universe(draw, kinds=('int', 'str', 'tuple', 'fset', 'mixed', 'obj'), lo=3, hi=6):
    kind = draw(st.sampled_from(kinds))
    n = draw(st.integers(lo, hi))
    if kind == 'int':
        pool = INT_POOL
    elif kind == 'str':
        pool = STR_POOL
    elif kind == 'safestr':
        pool = SAFE_STR_POOL
    elif kind == 'pathstr':
        pool = PATH_STR_POOL
    elif kind == 'tuple':
        pool = [{"tuple": p} for p in TUPLE_POOL]
    elif kind == 'fset':
        pool = [{"fset": p} for p in FSET_POOL]
    elif kind == 'obj':
        pool = [{"obj": i} for i in range(6)]
    else:
        # ints and strings incl. ids that print alike, plus tuples whose members are ids themselves
        pool = [0, 1, 2, -1, 7, 1000] + ['1', '0', 'a', '', '-1', 'A'] + [{"tuple": [1, 2]}, {"tuple": [0, 1]}, {"tuple": [1]}]
    n = min(n, len(pool))
    idx = draw(st.lists(st.integers(0, len(pool) - 1), min_size=n, max_size=n, unique=True))
    out = [pool[i] for i in idx]
    # one universe in four starts with two distinct ids that hash alike (-1/-2, 0/''), or with a tuple id
    # next to its own members: the first ids of a universe are the ones histories use most
    if draw(st.integers(0, 3)) == 0:
        front = {'int': [-1, -2], 'mixed': [[0, ''], [1, 2, {"tuple": [1, 2]}], [1, {"tuple": [1]}, 2]][draw(st.integers(0, 2))][:3 if n >= 4 else 2]}.get(kind)
        if front:
            out = front + [x for x in out if x not in front]
            out = out[:max(n, len(front))]
    return out


# -3 / -7 straddle 0, -1, -2; 2**63 - 4 straddles the signed 64-bit limit, everything at -2**63 - 40 is below it; 2**70 is beyond machine words
BASES = [0, 0, 0, 1, -7, -3, 1000, -10 ** 6, 10 ** 9, 2 ** 70, 2 ** 63 - 4, -(2 ** 63) - 40]

ATTR_VALUES = st.recursive(
    st.one_of(st.integers(-3, 3), st.sampled_from(['x', 'y', '', 'A']), st.none(), st.booleans()),
    lambda c: st.one_of(st.lists(c, max_size=2), st.dictionaries(st.sampled_from(['k', 'j']), c, max_size=2)),
    max_leaves=4)
# attribute names include ones that are parameter names somewhere in the library or in networkx ('n', 'data', 'source', ...)
ATTR_KEYS = ['Label', 'w', 'meta', 'lab', 'n', 'source', 'target', 'time', 'data', 't']
ATTRS = st.dictionaries(st.sampled_from(ATTR_KEYS), ATTR_VALUES, max_size=2)
# ... and, where attributes are carried rather than copied, values that are equal only to themselves and refuse copying
ATTRS_H = st.dictionaries(st.sampled_from(ATTR_KEYS),
                          st.one_of(ATTR_VALUES, ATTR_VALUES, st.integers(0, 2).map(lambda k: {"hnd": k}),
                                    st.integers(0, 2).map(lambda k: [{"hnd": k}])), max_size=2)


# ----------------------------------------------------------------------------- histories
ADD_KINDS = ['add', 'add', 'add', 'add', 'add', 'add_from', 'path', 'star', 'cycle', 'node', 'nodes_from']


def _span(draw, model, key, base, horizon, want_reject=False, maxlen=4):
    """Choose (t, e) relative to the latest run of `key` (if any)."""
    lr = model.latest_run(key) if key is not None else None
    has_e = draw(st.booleans())
    length = draw(st.integers(1, maxlen))
    if lr is None or not draw(st.integers(0, 4)):
        t = base + draw(st.integers(0, horizon))
    else:
        s, en = lr
        anchor = draw(st.sampled_from(['start', 'inside', 'end', 'end+1', 'gap', 'same', 'before']
                                      if want_reject is None else
                                      (['before'] if want_reject else
                                       ['start', 'inside', 'end', 'end+1', 'gap', 'same'])))
        if anchor == 'start':
            t = s
        elif anchor == 'inside':
            t = s + draw(st.integers(0, max(0, en - s)))
        elif anchor == 'end':
            t = en
        elif anchor == 'end+1':
            t = en + 1
        elif anchor == 'gap':
            t = en + 2 + draw(st.integers(0, 2))
        elif anchor == 'same':
            t = s
            has_e = True
            length = en - s + 1
        else:  # before
            t = s - 1 - draw(st.integers(0, 2))
    e = t + length if has_e else None
    return t, e


@st.composite
def history(draw, classes=('DynGraph', 'DynDiGraph'), removal=(True,), kinds=None, max_ops=12,
            min_ops=1, node_kinds=('int', 'str', 'tuple', 'fset', 'mixed', 'obj'), rejects=None,
            horizon=10, allow_missing_t=False, bases=None, attrs=True, uni=(3, 6), bulk_e=True, maxlen=4, selfloops=True,
            shifts=False):
    """Draw a case.  rejects: None = anchors include 'before' (rejections happen naturally),
    False = never generate a span that starts before the latest run."""
    cls = draw(st.sampled_from(classes))
    rem = draw(st.sampled_from(removal))
    nodes = draw(universe(kinds=node_kinds, lo=uni[0], hi=uni[1]))
    base = draw(st.sampled_from(bases or BASES))
    model = Ref(cls == 'DynDiGraph', rem)
    dn_nodes = [decode_node(x) for x in nodes]
    nn = len(nodes)
    n_ops = draw(st.integers(min_ops, max_ops))
    kinds = kinds or ADD_KINDS
    ops = []
    from .drive import apply_model  # late import (cycle)
    for _ in range(n_ops):
        kind = draw(st.sampled_from(kinds))
        if kind == 'add':
            ui = draw(st.integers(0, nn - 1))
            vi = draw(st.integers(0, nn - 1))
            if ui == vi and (not selfloops or draw(st.integers(0, 2))):
                vi = (vi + 1) % nn
            if ops and draw(st.integers(0, 2)) == 0 and model.orient:
                # revisit an existing pair, possibly with flipped endpoints
                keys = model.keys()
                u, v = model.ends(keys[draw(st.integers(0, len(keys) - 1))])
                ui, vi = dn_nodes.index(u), dn_nodes.index(v)
                if draw(st.booleans()):
                    ui, vi = vi, ui
            key = model.key(dn_nodes[ui], dn_nodes[vi])
            t, e = _span(draw, model, key, base, horizon, want_reject=rejects, maxlen=maxlen)
            op = ['add', ui, vi, t, e]
        elif kind == 'add_from':
            k = draw(st.integers(1, 4))
            pairs = [[draw(st.integers(0, nn - 1)), draw(st.integers(0, nn - 1))] for _ in range(k)]
            if not selfloops:
                pairs = [[a, b if a != b else (b + 1) % nn] for a, b in pairs]
            key0 = model.key(dn_nodes[pairs[0][0]], dn_nodes[pairs[0][1]])
            t, e = _span(draw, model, key0, base, horizon, want_reject=rejects, maxlen=maxlen)
            if not bulk_e:
                e = None
            op = ['add_from', pairs, t, e]
        elif kind in ('path', 'star', 'cycle'):
            k = draw(st.integers(2, min(4, nn)))
            seq = draw(st.lists(st.integers(0, nn - 1), min_size=k, max_size=k, unique=not selfloops))
            form = draw(st.sampled_from(['m', 'f']))
            if cls == 'DynDiGraph' and kind != 'path':
                form = 'f'
            key0 = model.key(dn_nodes[seq[0]], dn_nodes[seq[1]])
            t, e = _span(draw, model, key0, base, horizon, want_reject=rejects, maxlen=maxlen)
            if form == 'm' or not bulk_e:
                e = None
            op = [kind, seq, t, form, e]
        elif kind == 'node':
            op = ['node', draw(st.integers(0, nn - 1)), draw(ATTRS_H if attrs == 'handles' else ATTRS) if attrs else {}]
        elif kind == 'nodes_from':
            k = draw(st.integers(1, 3))
            op = ['nodes_from', draw(st.lists(st.integers(0, nn - 1), min_size=k, max_size=k)),
                  draw(ATTRS_H if attrs == 'handles' else ATTRS) if attrs else {}]
        elif kind == 'reject':
            keys = [k for k in model.keys() if model.latest_run(k) is not None]
            if not keys:
                ui, vi = draw(st.integers(0, nn - 1)), draw(st.integers(0, nn - 1))
                op = ['add', ui, vi, base + draw(st.integers(0, horizon)), None]
            else:
                k = keys[draw(st.integers(0, len(keys) - 1))]
                u, v = model.ends(k)
                ui, vi = dn_nodes.index(u), dn_nodes.index(v)
                if cls == 'DynGraph' and draw(st.booleans()):
                    ui, vi = vi, ui
                s0 = model.latest_run(k)[0]
                t = s0 - 1 - draw(st.integers(0, 3))
                e = t + draw(st.integers(1, 6)) if draw(st.booleans()) else None
                form = draw(st.sampled_from(['add', 'add', 'add_from', 'add_from', 'path', 'star']))
                if form == 'add':
                    op = ['add', ui, vi, t, e]
                elif form == 'add_from':
                    pre = [[draw(st.integers(0, nn - 1)), draw(st.integers(0, nn - 1))] for _ in range(draw(st.integers(0, 2)))]
                    post = [[draw(st.integers(0, nn - 1)), draw(st.integers(0, nn - 1))] for _ in range(draw(st.integers(0, 1)))]
                    op = ['add_from', pre + [[ui, vi]] + post, t, e if bulk_e else None]
                elif form == 'path':
                    x = draw(st.integers(0, nn - 1))
                    fm = draw(st.sampled_from(['m', 'f']))
                    op = ['path', [x, ui, vi] if draw(st.booleans()) else [ui, vi, x], t, fm, e if (fm == 'f' and bulk_e) else None]
                else:
                    x = draw(st.integers(0, nn - 1))
                    fm = 'f' if cls == 'DynDiGraph' else draw(st.sampled_from(['m', 'f']))
                    op = ['star', [ui, x, vi], t, fm, e if (fm == 'f' and bulk_e) else None]
        elif kind == 'recip':
            # the reverse of an existing arc/pair, positioned relative to the *forward* timeline
            keys = model.keys()
            if not keys:
                a_, b_ = draw(st.integers(0, nn - 1)), draw(st.integers(0, nn - 1))
                if a_ == b_ and not selfloops:
                    b_ = (b_ + 1) % nn
                op = ['add', a_, b_, base + draw(st.integers(0, horizon)), None]
            else:
                u, v = model.ends(keys[draw(st.integers(0, len(keys) - 1))])
                ui, vi = dn_nodes.index(v), dn_nodes.index(u)
                fr = model.latest_run(model.key(u, v))
                rk = model.key(v, u)
                rr = model.latest_run(rk)
                t = fr[0] + draw(st.integers(-2, 3))
                if rr is not None and t < rr[0]:
                    t = rr[0] + draw(st.integers(0, 3))
                e = t + draw(st.integers(1, 4)) if draw(st.booleans()) else None
                op = ['add', ui, vi, t, e]
        elif kind == 'tpath':
            k = draw(st.integers(2, min(5, nn)))
            seq = draw(st.lists(st.integers(0, nn - 1), min_size=k, max_size=k, unique=True))
            op = ['tpath', seq, base + draw(st.integers(0, max(0, horizon - 1)))]
        elif kind == 'gaprun':
            # one more run after a gap on an existing pair (mostly the first pair): builds long timelines
            keys = [k for k in model.keys() if model.latest_run(k) is not None]
            if not keys:
                a_, b_ = draw(st.integers(0, nn - 1)), draw(st.integers(0, nn - 1))
                if a_ == b_ and not selfloops:
                    b_ = (b_ + 1) % nn
                op = ['add', a_, b_, base + draw(st.integers(0, horizon)), None]
            else:
                k = keys[0] if draw(st.integers(0, 3)) else keys[draw(st.integers(0, len(keys) - 1))]
                u, v = model.ends(k)
                ui, vi = dn_nodes.index(u), dn_nodes.index(v)
                if cls == 'DynGraph' and draw(st.booleans()):
                    ui, vi = vi, ui
                t = model.latest_run(k)[1] + 2 + draw(st.integers(0, 1))
                e = t + draw(st.integers(1, maxlen)) if draw(st.booleans()) else None
                op = ['add', ui, vi, t, e]
        elif kind == 'missing_t':
            if draw(st.booleans()):
                op = ['add_not', draw(st.integers(0, nn - 1)), draw(st.integers(0, nn - 1))]
            else:
                op = ['add_from_not', [[draw(st.integers(0, nn - 1)), draw(st.integers(0, nn - 1))]]]
        else:
            raise ValueError(kind)
        ops.append(op)
        apply_model(model, dn_nodes, op)
    case = {"cls": cls, "removal": rem, "nodes": nodes, "ops": ops}
    if os.environ.get('DXVERIF_FORCE_SHIFT'):      # harness self-test: every history is played at +-10**4400
        shifts = ['p4400', 'n4400']
    if shifts:
        # one history in ten is played 10**4400 instants later / earlier (drive.tshift): Python cannot print such ints
        sh = draw(st.sampled_from([None] * 9 + ['p4400', 'n4400'] if shifts is True else shifts))
        if sh:
            case['tshift'] = sh
    return case


def very_long_cases():
    """Fourteen fixed histories in which one pair collects 65-300 runs (thresholds such as "more than 64 runs"):
    point runs and short intervals separated by gaps of 1-3 instants, the endpoints flipped now and then, a second
    pair and the reverse arc interleaved, negative / zero-straddling / huge starts."""
    out = []
    for k, (cls, base, nruns) in enumerate([('DynGraph', 0, 70), ('DynDiGraph', 0, 70), ('DynGraph', -150, 90), ('DynDiGraph', -150, 90),
                                            ('DynGraph', 2 ** 63 - 100, 66), ('DynDiGraph', 2 ** 63 - 100, 66),
                                            ('DynGraph', 1, 130), ('DynDiGraph', -7, 130), ('DynGraph', -1000, 65), ('DynDiGraph', 10 ** 9, 65),
                                            ('DynGraph', -3, 72), ('DynDiGraph', 3, 72), ('DynGraph', 0, 300), ('DynDiGraph', -500, 300)]):
        ops, t = [], base
        for i in range(nruns):
            ln = (i * 7 + k) % 4                       # 0: a point run, 1-3: an interval of that many extra instants
            a, b = (0, 1) if (cls == 'DynDiGraph' or (i + k) % 5) else (1, 0)
            ops.append(['add', a, b, t, None if ln == 0 else t + ln + 1])
            if i % 9 == 4:
                ops.append(['add', 1, 2, t, t + 2])    # a second pair sharing instants
            if cls == 'DynDiGraph' and i % 6 == 3:
                ops.append(['add', 1, 0, t + 1, None])  # the reverse arc
            t += ln + 1 + 1 + (i * 5 + k) % 3          # past the run, then a gap of 1-3 instants
        out.append({"cls": cls, "removal": True, "nodes": [5, 300, 7], "ops": ops, "verylong": True})
    return out


def tiered(tier, **kw):
    """history(**kw), mixed 5:1 with a long-timeline variant (2-3 nodes, 12-22 calls, mostly new runs
    after a gap on the first pair: pairs with ten and more runs).  In the thorough tier a third of the
    cases additionally come from a larger variant (twice the calls, twice the instant range, up to 8
    nodes, longer spans), so that depth grows without thinning out the small, collision-rich cases."""
    small = history(**kw)
    lt = dict(kw)
    base_kinds = [k for k in (kw.get('kinds') or ADD_KINDS) if k in ('add', 'recip', 'node', 'reject', 'missing_t')] or ['add']
    lt.update(max_ops=22, min_ops=12, uni=(2, 3), horizon=3, maxlen=min(3, kw.get('maxlen', 4)),
              kinds=base_kinds[:3] + ['gaprun'] * 7)
    long_tl = history(**lt)
    if tier != 'thorough':
        return st.one_of(small, small, small, small, small, long_tl)
    big = dict(kw)
    big['max_ops'] = min(28, 2 * kw.get('max_ops', 12))
    big['horizon'] = 2 * kw.get('horizon', 10)
    lo, hi = kw.get('uni', (3, 6))
    big['uni'] = (lo, min(8, hi + 2))
    big['maxlen'] = kw.get('maxlen', 4) + 2
    # ... and one case in eight is 'extra large': 9-12 integer nodes, up to 24 calls, spans of up to 40 instants
    xl = dict(kw)
    xl.update(max_ops=24, min_ops=8, uni=(9, 12), node_kinds=('int',), maxlen=40, horizon=30)
    return st.one_of(small, small, small, history(**big), history(**big), long_tl, long_tl, history(**xl))
