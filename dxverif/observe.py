"""Snapshot of every public observable of a graph, for "observably unchanged" / "same graph"."""
import copy

from .model import snap


def _k(x):
    return repr(x)


def observe(G, nodes=None, probes=None):
    """A comparable structure; raises whatever the library raises (callers wrap it)."""
    directed = G.is_directed()
    out = {}
    out['class'] = type(G).__name__
    out['edge_removal'] = getattr(G, 'edge_removal', None)
    out['nodes'] = sorted(((_k(n), snap(a)) for n, a in G.nodes(data=True)), key=lambda x: x[0])
    out['node_order'] = [_k(n) for n in G.nodes()]
    out['graph'] = snap(G.graph)
    tl = []
    for u, v, d in G.interactions():
        tl.append((_k(u), _k(v), copy.deepcopy(d)))
    out['interactions'] = sorted(tl, key=lambda x: (x[0], x[1]))
    if directed:
        out['in'] = sorted(((_k(u), _k(v), copy.deepcopy(d)) for u, v, d in G.in_interactions()),
                           key=lambda x: (x[0], x[1]))
        out['out'] = sorted(((_k(u), _k(v), copy.deepcopy(d)) for u, v, d in G.out_interactions()),
                            key=lambda x: (x[0], x[1]))
    out['ids'] = list(G.temporal_snapshots_ids())
    out['counts'] = dict(G.interactions_per_snapshots())
    out['stream'] = [(_k(a), _k(b), op, t) for a, b, op, t in G.stream_interactions()]
    ns = list(G.nodes()) if nodes is None else list(nodes)
    if probes is None:
        ids = out['ids']
        if not ids:
            probes = [0]
        elif max(ids) - min(ids) <= 400:
            probes = list(range(min(ids) - 1, max(ids) + 2))
        else:       # widely spread ids: probe around each of them instead of the whole range
            probes = sorted({t + k for t in ids for k in (-1, 0, 1)})
    pres = set()
    for u in ns:
        for v in ns:
            if G.has_interaction(u, v):
                pres.add((_k(u), _k(v), None))
                for t in probes:
                    if G.has_interaction(u, v, t):
                        pres.add((_k(u), _k(v), t))
    out['presence'] = pres
    return out


def diff(a, b):
    """Names of the components that differ."""
    return [k for k in a if a[k] != b.get(k, None)] + [k for k in b if k not in a]
