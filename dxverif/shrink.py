"""Deterministic shrinking of a failing case: ddmin over the list-valued parts of the case, then
one-at-a-time removal, then optional module-specific simplifications."""
import copy


def _ddmin(items, test, budget):
    n = 2
    items = list(items)
    while len(items) >= 2 and budget[0] > 0:
        chunk = max(1, len(items) // n)
        subsets = [items[i:i + chunk] for i in range(0, len(items), chunk)]
        reduced = False
        for i in range(len(subsets)):
            if budget[0] <= 0:
                break
            comp = [x for j, s in enumerate(subsets) if j != i for x in s]
            budget[0] -= 1
            if test(comp):
                items = comp
                n = max(n - 1, 2)
                reduced = True
                break
        if not reduced:
            if n >= len(items):
                break
            n = min(len(items), n * 2)
    return items


def shrink(mod, prop, sub, case, kidx, max_evals=400, wall_s=90, case_limit_s=10):
    """Bounded by evaluations and by wall clock; a candidate that runs longer than case_limit_s counts as
    'does not fail' (a hang in the changed code must not stall the report of the violation)."""
    import time
    from .runner import Recorder, run_one
    from . import findings as _f
    t_end = time.time() + wall_s

    def failing(c):
        if time.time() > t_end:
            budget[0] = 0
            return None
        rec = Recorder(prop, kidx, _f.Index(_f.load()[0]))
        try:
            fails = run_one(mod, c, rec, limit=case_limit_s)
        except Exception:
            return None
        for s, d in fails:
            if s == sub:
                return d if d is not None else ''
        return None

    budget = [max_evals]
    if failing(case) is None:
        return None, None
    cur = copy.deepcopy(case)
    keys = getattr(mod, 'SHRINK_KEYS', ['ops'])
    minlen = getattr(mod, 'SHRINK_MIN', {})
    for key in keys:
        if key not in cur or not isinstance(cur[key], list):
            continue

        def test(items, key=key):
            if len(items) < minlen.get(key, 0):
                return False
            c = dict(cur)
            c[key] = items
            return failing(c) is not None
        cur[key] = _ddmin(cur[key], test, budget)
        # one-at-a-time
        i = 0
        while i < len(cur[key]) and budget[0] > 0:
            cand = cur[key][:i] + cur[key][i + 1:]
            budget[0] -= 1
            if test(cand):
                cur[key] = cand
            else:
                i += 1
    simp = getattr(mod, 'simplify', None)
    if simp is not None:
        for cand in simp(cur):
            if budget[0] <= 0:
                break
            budget[0] -= 1
            if failing(cand) is not None:
                cur = cand
    return cur, failing(cur)
