"""KNOWN_FINDINGS.txt parser (DESIGN.md section 4).  The file is never written at run time."""
import os
import re

HERE = os.path.dirname(os.path.dirname(os.path.abspath(__file__)))
PATH = os.path.join(HERE, 'KNOWN_FINDINGS.txt')


class Finding:
    def __init__(self, prop, oracle, trigger, text):
        self.prop, self.oracle, self.trigger, self.text = prop, oracle, trigger, text

    @property
    def ident(self):
        return '%s/%s' % (self.oracle, self.trigger)


def load(path=PATH):
    known, fixed = [], []
    if not os.path.exists(path):
        return known, fixed
    for line in open(path, encoding='utf-8'):
        line = line.strip()
        if not line or line.startswith('#'):
            continue
        if line.startswith('known:'):
            m = re.match(r'known:\s+property=(\S+)\s+oracle=(\S+)\s+trigger=(\S+)\s*::\s*(.*)$', line)
            if not m:
                raise SystemExit('harness error: malformed known-finding line: %r' % line)
            known.append(Finding(*m.groups()))
        elif line.startswith('fixed:'):
            fixed.append(line)
        else:
            raise SystemExit('harness error: malformed line in KNOWN_FINDINGS.txt: %r' % line)
    return known, fixed


class Index:
    """Findings of one property.  The oracle field of a line may be an fnmatch pattern naming several
    API forms of the same query (e.g. C02.*interactions*@t); the trigger must match exactly."""

    def __init__(self, items):
        self.items = list(items)
        self._cache = {}

    def find(self, sub, trigger):
        key = (sub, trigger)
        if key not in self._cache:
            import fnmatch
            hit = None
            for f in self.items:
                if f.trigger == trigger and (f.oracle == sub or fnmatch.fnmatchcase(sub, f.oracle)):
                    hit = f
                    break
            self._cache[key] = hit
        return self._cache[key]

    def __contains__(self, key):
        return self.find(*key) is not None


def index(known, prop):
    return Index(f for f in known if f.prop == prop)
